#!/usr/bin/env python3
"""Print the as-built tables of DESIGN.md section 9 (fixes, known findings, seeded changes) from the committed records."""
import glob, json, os, re
V = '/verif'
rows = [json.loads(l) for l in open(V + '/known_findings.jsonl') if l.strip() and not l.startswith('#')]
print('#### Defects repaired in /repo (one `fix:` commit each)\n')
print('| prop | commit | what failed on the pinned tree |\n|---|---|---|')
for r in rows:
    if r['status'] == 'fixed':
        what = re.sub(r'^fixed: property=\S+ \S+ ', '', r['what'])
        print('| %s | `%s` | %s |' % (r['property'], r.get('commit', ''), what.replace('|', '\\|')))
print('\n#### Known findings (genuine defects recorded, not repaired)\n')
print('| prop | signature | what fails |\n|---|---|---|')
for r in rows:
    if r['status'] == 'finding':
        print('| %s | `%s` | %s |' % (r['property'], r['signature'], r['what'].replace('|', '\\|')))
print('\n#### Seeded changes (from sub-agents that saw only the property text) and the check that catches each\n')
print('| id | change (summary) | caught by | first violation signature | note |\n|---|---|---|---|---|')
for d in sorted(glob.glob(V + '/seeded/*')):
    m = json.load(open(d + '/meta.json'))
    sig = next((s for s in m.get('signatures', []) if s.startswith('signature=')), '')
    sig = sig[len('signature='):].split(' count=')[0]
    summ = (m.get('summary') or m.get('description') or '')
    summ = summ.split('. ')[0][:230]
    print('| %s | %s | `%s`%s | `%s` | %s |' % (os.path.basename(d), summ.replace('|', '\\|').replace('\n', ' '), m.get('check_cmd', ''), '' if m.get('detected') else ' (NOT detected)', sig, (m.get('note') or '').replace('|', '\\|')))

#!/venv/bin/python
"""Print the prompt for a mutation sub-agent for one property and create its scratch worktree."""
import json, subprocess, sys
pid = sys.argv[1]; n = int(sys.argv[2]) if len(sys.argv) > 2 else 3
extra = sys.argv[3] if len(sys.argv) > 3 else ''
d = next(json.loads(l) for l in open('/verif/properties.jsonl') if json.loads(l)['id'] == pid)
wt = '/tmp/wt/%s' % pid.lower()
subprocess.run('mkdir -p /tmp/wt; git -C /repo worktree remove --force %s 2>/dev/null; git -C /repo worktree add -q --detach %s HEAD' % (wt, wt), shell=True, check=True)
print(f'''You are helping test a verification framework by writing realistic *bugs*. You work ONLY inside the scratch git worktree {wt} (a checkout of the Python library brandondube/prysm, a numerical optics library). Do NOT read or touch /verif or /repo. Python to use: /venv/bin/python (numpy, scipy installed); run things with `cd {wt} && PYTHONPATH={wt} /venv/bin/python ...`. No network.

The semantic property under attack (this text is all you get):

"{pid} - {d['title']}. {d['statement']} Quantified over: {d['quantifier']['text']}. Relevant code: {', '.join(d['anchors']['files'])}; observable at: {', '.join(d['anchors'].get('observe_at') or [])}."

Task: produce {n} different, independent changes (mutations) to the library source (files under {wt}/prysm only, never tests), each of which
 (a) breaks the property above for some inputs / configurations / histories,
 (b) still imports, and still passes the existing test suite. To check (b) run the whole suite before and after: `cd {wt} && /venv/bin/python -m pytest -q -p no:cacheprovider --timeout=900 -rA 2>&1 | grep -E "^(PASSED|FAILED|ERROR)" | sort > /tmp/{pid.lower()}_<label>.txt` (about 20 s; some tests fail already for network reasons) and require that every test that PASSED before still PASSES after (diff the PASSED lines),
 (c) is *subtle*: it needs something specific to manifest - a particular parity or non-square shape, a particular axis, a particular argument form (scalar vs tuple), a corner value (n=0, n=1, length-1 input, zero, saturation), a particular order/sequence of operations or cached state, two cooperating sites that each look fine alone - not something that ordinary square power-of-two / default-argument use would expose at once. Prefer realistic programmer mistakes (refactor slip, wrong axis index, ceil vs floor, sign, dropped conjugate, off-by-one bound, an "optimisation" fast path that is wrong in a corner, a cache key that omits an argument).
 Make the mutations touch different functions / mechanisms named in the property. {extra}

For each mutation i in 1..{n} write, under {wt}/_seeded/m<i>/ :
  - patch.diff : `git diff` of ONLY that mutation against the worktree HEAD (so it applies with `git apply` to a clean checkout). Reset the worktree (git checkout -- .) between mutations so each patch is independent.
  - demo.py : a small standalone program (run as `PYTHONPATH=<checkout> /venv/bin/python demo.py`) that exits 0 on the unmodified library and exits non-zero (assert failure) with the mutation applied, demonstrating the property violation on the public API.
  - meta.json : {{"property": "{pid}", "summary": "...what was changed...", "needs": "...what specific input/sequence is needed to manifest...", "tests_run": "...command and pass counts before/after..."}}
Verify each yourself: demo passes on the clean tree and fails with the patch; PASSED list unchanged with the patch. Leave the worktree clean (git checkout -- .) at the end with only the untracked _seeded/ directory present. Note the library at this commit may itself have defects unrelated to your mutation: make sure your demo passes on the clean tree. In your final message list the mutations in one line each.''')

#!/bin/bash
# run every claimed check (quick tier by default) and print one summary line each
tier=${1:-quick}
cd /verif
for p in $(/venv/bin/python -c "import json; print(' '.join(c['property_id'] for c in json.load(open('MANIFEST.json'))['checks']))"); do
  out=$(timeout 3000 ./check $p --tier $tier 2>/dev/null); rc=$?
  echo "rc=$rc $(echo "$out" | grep -c '^VIOLATION') violations | $(echo "$out" | tail -1 | cut -c1-160)"
done

#!/venv/bin/python
"""print a python source file without docstrings / comments-only lines (reading aid)"""
import ast, sys
src = open(sys.argv[1]).read()
tree = ast.parse(src)
for node in ast.walk(tree):
    if isinstance(node, (ast.FunctionDef, ast.ClassDef, ast.Module, ast.AsyncFunctionDef)):
        if node.body and isinstance(node.body[0], ast.Expr) and isinstance(getattr(node.body[0], 'value', None), ast.Constant) and isinstance(node.body[0].value.value, str):
            node.body = node.body[1:] or [ast.Pass()]
out = ast.unparse(tree)
only = sys.argv[2:] 
if only:
    # print only the named top-level functions
    t2 = ast.parse(out)
    for n in t2.body:
        if getattr(n, 'name', None) in only:
            print(ast.unparse(n)); print()
else:
    print(out)

#!/venv/bin/python
"""Regenerate /verif/MANIFEST.json from the table below (one entry per built check)."""
import json
import os
import subprocess

V = os.path.dirname(os.path.dirname(os.path.abspath(__file__)))
ALL = ['C%02d' % i for i in range(1, 21)]

BUILT = {
    'C04': dict(
        spec='Grid.tla',
        text='TLC proves on Grid.tla (label arrays, pad/crop/padQ histories, four fill modes, frequency axes) that the single offset '
             'rule Off(n,m)=m div 2 - n div 2 keeps the origin label at index n div 2, keeps every surviving label at its own coordinate, '
             'and that crop undoes pad from every reachable state; every reachable state of the bounded model is emitted and its whole '
             'history is replayed step by step into fttools.pad2d/crop_center (tuple and scalar forms), Wavefront.pad2d/crop, fftrange, '
             'forward_ft_unit, make_xy_grid, RichData.x/y/slices and psf.centroid with exact comparison of every cell. Model checking with '
             'exhaustive conformance is the right level because the property is pure index arithmetic over small integers.',
        note='Trusted: TLC, the 60-line replay driver, numpy. Bounded: axis lengths <= 12, histories <= 3 (quick) / 4 (thorough); '
             'pad modes constant/edge/wrap (reflect not modelled); dyadic Q menu.',
        technique='TLA+ spec (Grid.tla) model-checked with TLC; every TLC behaviour replayed into prysm and compared cell by cell'),
    'C01': dict(
        spec='Dft.tla, Executors.tla, ExecutorsTrace.tla',
        text='Dft.tla writes the three routes out in exact arithmetic (roots of unity as exponents mod L): the matrix triple product with both '
             'coordinate vectors shifted, pad + full-period FFT, and the Bluestein chirp-Z factorisation with its circular kernel buffer. TLC '
             'proves for every axis configuration of the bounded menu (all parities, Q, output sizes, shifts, both directions, three buffer '
             'sizes) that each route equals the textbook Fourier sum exactly, or up to a per-output phase when shifted; the pinned chirp-Z index '
             'arithmetic is kept as a variant that must violate the law. Every emitted 2-D configuration (row axis x column axis) is replayed into '
             'mdft.dft2/idft2, czt.czt2/iczt2, propagation.focus/unfocus, focus_/unfocus_fixed_sampling (both methods) and the Wavefront methods and '
             'compared with the exact kernel. Executors.tla is the cache/precision/clear() history machine: TLC covers every history of any '
             'length (finite state space), bounded histories and simulate walks are replayed into the real shared executors, and the executions '
             'recorded from the real code are validated against ExecutorsTrace.tla (caches hidden, bound through nbytes()).',
        note='Trusted: TLC, the exact-kernel interpreter (cos/sin with exact argument reduction), numpy matmul. Bounded: axis lengths <= 6 in / 7 out '
             '(quick), 9/10 (thorough); dyadic Q and shift menus; shifted cases compared in modulus only, as the property allows.',
        technique='TLA+ specs (Dft.tla exact kernels, Executors.tla history machine) checked by TLC; behaviours replayed into prysm; recorded executor traces validated against ExecutorsTrace.tla'),
    'C02': dict(
        spec='Dft.tla, Cyclo.tla, FreeSpace.tla, Rat.tla',
        text='Unitarity and invertibility are proved on the model in exact cyclotomic arithmetic (Cyclo.tla: elements of Z[zeta_L] reduced modulo the '
             'cyclotomic polynomial): for every band-complete axis kernel E^H E = m I and inverse(Q=1) o forward = identity with norms multiplying to 1/m; '
             'FftLaw shows the padded FFT is that kernel and that zero padding is injective. FreeSpace.tla carries the angular-spectrum phase table as '
             'exact rationals and TLC checks phi(0)=0, phi(-z)=-phi(z), phi(z1)+phi(z2)=phi(z1+z2), evenness in f. The emitted configurations are '
             'replayed into focus/unfocus, mdft/czt pairs, angular_spectrum(_transfer_function) and Wavefront.free_space: values against the exact '
             'tables, and the laws themselves (energy, inverse, zero distance, undo, additivity) on Gaussian-integer fields.',
        note='Added after round-2 seeding: non-integer Q on the FFT route in the quick tier; the free-space algebra (unit modulus, additivity, negated distance, energy) replayed at distances far beyond the exact menu. Trusted: TLC, numpy FFT as used by the driver to apply the exact transfer function. Bounded: shapes <= 6 (quick) / 10 (thorough) per axis, '
             'rational Q with integer nQ, small rational menus for wavelength / spacing / distance; float32 only in the thorough tier.',
        technique='TLA+ specs (Dft.tla with exact cyclotomic unitarity laws, FreeSpace.tla rational phase table) checked by TLC; emitted configurations and metamorphic laws replayed into prysm'),
    'C05': dict(
        spec='Dft.tla',
        text='TLC proves on the exact kernels that a field embedded in a longer zero-padded axis at the same spacing (Q scaled by n/n\') sees the same '
             'kernel for every parity of the padding (EmbedLaw, which rests on the GridLib origin rule), that swapping axes swaps every per-axis public '
             'argument (TransposeLaw), that to-mask-and-back = T^H diag(mask) T is the identity for an all-pass mask on the whole band (UnitaryLaw, shifted '
             'kernels included) and is additive in the mask for every subset mask (MaskLaw, Babinet). Every emitted physically consistent 2-D configuration is '
             'replayed as metamorphic behaviours (linearity, four embeddings, transposition) into focus_/unfocus_fixed_sampling with both methods, and '
             'to_fpm_and_back / Wavefront.to_fpm_and_back / Wavefront.babinet are compared in value with the exact T^H diag(mask) T for all-pass, real and complex masks.',
        note='Trusted: TLC, exact-kernel interpreter. Bounded: pupil axes <= 5 (quick) / 6, mask sizes <= 7, three nQ values, rational shifts; known finding: '
             'to_fpm_and_back with method=czt and a non-zero shift (listed in known_findings.jsonl).',
        technique='TLA+ spec (Dft.tla: EmbedLaw, TransposeLaw, MaskLaw, UnitaryLaw) checked by TLC; laws and exact values replayed into prysm as metamorphic behaviours'),
    'C03': dict(
        spec='Optics.tla',
        text='Optics.tla carries wavelength, focal length, spacings and tilt as exact rationals and derives per axis what each route must report '
             '(FFT route: N = ceil(nQ), dx\' = lam efl/(N dx), spot at k N/n; fixed sampling: Q = lam efl/(D dxo), spot at kQ + s). TLC checks that the '
             'spacing helpers are exact inverses, that Q_for_sampling is consistent with them, that spot sample x true spacing = k lam efl / D for '
             'integer and fractional tilts with and without shift, and derives the spot sample from the exact Fourier kernel itself (cyclotomic '
             'arithmetic: all n terms in phase exactly at the predicted sample, exact zeros on the rest of the critical lattice). Each emitted '
             'configuration is replayed: a tilted pupil through Wavefront.focus and focus_fixed_sampling (both methods), the displaced spot back '
             'through unfocus / unfocus_fixed_sampling; landing sample, reported dx and reported coordinates are compared with the rationals.',
        note='Trusted: TLC, numpy. Bounded: pupil axes 4..6 (quick) / 3..8, small rational menus; where the output spans more than one period the position '
             'is not checked. Known finding (not repaired): Wavefront.focus on non-square arrays reports one dx (known_findings.jsonl).',
        technique='TLA+ spec (Optics.tla, exact rational physics + cyclotomic kernel test) checked by TLC; emitted configurations replayed into Wavefront / fixed-sampling routes'),
    'C12': dict(
        spec='Interferogram.tla, InterferogramTrace.tla',
        text='Interferogram.tla makes every public method and coordinate property an action over (shape, dx, invalid set, Cartesian cache, polar cache) '
             'with each mutator\'s effect on each cache explicit. Without the history variable the state space is finite, so TLC checks Coherent, '
             'ValidityPreserved, CropKeepsValid and CropTight over every history of any length; the pinned tree\'s missing invalidations are kept as a '
             'variant that must violate Coherent. Binding goes through one path in both directions: TLC-generated operation sequences (exhaustive to a '
             'depth, simulate walks) and seeded random programs are executed on a real Interferogram, a recorder logs after every public call what a user '
             'can observe (shape, dx, NaN set, returned grid descriptor, polar-consistency, the call\'s numerical promise), and TLC validates every '
             'recorded execution against InterferogramTrace.tla with the caches hidden.',
        note='Added after round-2 seeding: r and t are read in both orders at every polar read, and a directed exploration (read / change / read / change / read over every pair of changes, constraint Alternating) joins the exhaustive and simulated histories. Trusted: TLC, the recorder (public API only), numpy. Bounded: maps up to 4x4 (all-histories model, quick) / 4x5, programs on maps up to 9x9; '
             'filter specified on NaN-free maps only; idempotence of tilt/power removal asserted only when the fitted modes are independent on the valid samples.',
        technique='TLA+ history-machine spec (Interferogram.tla) model-checked over all histories; recorded executions of the real class validated by TLC against InterferogramTrace.tla'),
    'C14': dict(
        spec='InstrumentFile.tla',
        text='InstrumentFile.tla models a file as a header (the dimension fields) followed by the samples in the writer\'s order (both formats store the '
             'map flipped top-to-bottom, row-major), the fault model "cut after k complete samples, optionally with part of the next", and the read '
             'outcomes. TLC checks RoundTrip (same shape, every label at its own position, same invalid set) and NoSilentTruncation for every shape, '
             'invalid set and cut of the bounded model; the three pinned layout bugs are variants that must violate the invariants. Every TLC behaviour '
             'is replayed on REAL files: written by write_zygo_dat / write_codev_gridint / Interferogram.save_zygo_dat, cut at the byte offset the '
             'abstract cut maps to (token boundaries found in the written text), read back with warnings captured, and checked against the relation '
             'the property states with the spec\'s missing-set, for six value classes and distinct sample values (orientation observable).',
        note='Added after round-2 seeding: instrument-written Zygo files (an intensity block between header and phase block, declared in the header) as first-generation files, their resave history, and the stale-ac variant as vacuity guard. Trusted: TLC, the 200-line file driver. Bounded: shapes up to 3x3 (quick) / 4x3, at most 1 (2) invalid samples, every cut position in the '
             'data block; quantisation step taken from the file\'s own header and bounded by the format range. Known finding: a Code V file cut inside '
             'its last token is read silently (known_findings.jsonl).',
        technique='TLA+ fault-machine spec (InstrumentFile.tla) checked by TLC over all truncation points; every behaviour replayed on real files written, cut and read by prysm'),
    'C16': dict(
        spec='Sensor.tla',
        text='Sensor.tla models the exposure pipeline as a sequential machine over exact rationals (dark, bias, full-well clip, gain, ADC clip, integer '
             'conversion left open as floor-or-round, modular cast to the unsigned container as numpy does) and TLC checks InRange, Monotone and Saturates '
             'at and around every threshold for every bit depth / gain / bias / dark / exposure / well depth of the menu; the pinned ceiling 2^bits is a '
             'variant that must violate them. Bin/tile are index maps on N-D integer arrays with conservation and adjointness laws; the Bayer part is the '
             'colour-site map of both layouts with recomposition = identity. Emitted configurations are replayed into Detector.expose (noise off through '
             'the public back-end shim; range, monotonicity, value within one count, shape, dtype), bindown/tile (values, totals, levels, adjoint) and '
             'prysm.bayer (decomposite, recomposite, composite, both demosaics: every raw sample at its native site).',
        note='Added after round-2 seeding: bindown of a near-saturated uint8 frame. Trusted: TLC, numpy. Bounded: bit depths 1..24, N <= 3 dimensions, mosaics up to 6x8; white-balance helpers are not part of the statement and '
             'are not checked.',
        technique='TLA+ spec (Sensor.tla: pipeline machine, index-map laws, colour-site map) checked by TLC; emitted configurations replayed into prysm.detector / prysm.bayer'),
    'C11': dict(
        spec='ZernikeIndex.tla',
        text='ZernikeIndex.tla defines Noll, Fringe, ANSI and the Code V XY index constructively with integers only (group numbers by their defining '
             'inequalities, closed-form integer inverses) and walks every index up to J in parallel blocks; in every state TLC checks the defining '
             'inequalities of the carried group numbers, validity of the order, inverse(forward(j)) = j, the parity / ordering rules, and - for the current '
             'radial order - that every valid (n, m) is hit by its inverse index and maps back (surjectivity). The exported table (one row per index, no '
             'sampling) is compared with noll_to_nm, fringe_to_nm, nm_to_fringe, ansi_j_to_nm, nm_to_ansi_j and xy_j_to_mn.',
        note='Trusted: TLC. Bounded: every index 1..60000 (quick), each evaluated twice (ascending, then descending) / 1..100000 (thorough), radial orders up to 199 / 446; xy_j_to_mn compared up to index 3000 / 20000.',
        technique='TLA+ spec (ZernikeIndex.tla, integer-only constructive definitions) checked by TLC for every index; exported table compared exhaustively with the prysm index functions'),
    'C15': dict(
        spec='Conv.tla',
        text='Conv.tla defines circular convolution about the origin n div 2 as the direct double sum on integer arrays and TLC checks identity and '
             'translation by an impulse at every position, commutativity, linearity and the product of totals for every shape of the menu; transfer-function '
             'application is modelled per frequency coordinate in the shifted and the unshifted convention (GridLib layouts) with arrays and callables as '
             'opaque factors: every frequency receives the factor belonging to that frequency in both conventions (the pinned variant, which hands '
             'callables the shifted grid always, must violate this); |OTF|^2 of non-negative integer PSFs is exact on cyclotomic orders dividing 4 or 6, so '
             'MTF(0)=1, MTF<=1 and point symmetry are exact integer laws. Emitted cases are replayed into conv (integer inputs, exact outputs), '
             'apply_transfer_functions (nine transfer-function lists mixing arrays and callables of fx, fy, fr, ft, both conventions, list-vs-product, '
             'identity) and mtf_/ptf_/otf_from_psf (value against the exact rational, DC, bound, symmetry, OTF = MTF exp(i PTF)).',
        note='Trusted: TLC, numpy FFT for applying the factor table (bound to the textbook sum by C01/C02). Bounded: shapes up to 5x4 (quick) / 6x5; OTF shapes '
             'with axis lengths in {1,2,3,4,6} and lcm in {1,2,3,4,6}.',
        technique='TLA+ spec (Conv.tla: direct-sum convolution laws, per-frequency factor model, exact MTF^2) checked by TLC; emitted cases replayed into prysm.convolution / prysm.otf'),
    'C08': dict(
        spec='SeqSweep.tla',
        text='SeqSweep.tla is the running-index sweep behind every one-index *_seq routine as a step machine (running order, three-term recurrence state, '
             'running output slot, special-cased seed orders, emit when ns[slot] = i) in its value and derivative variants, the two-index lookup machine '
             '(per-|m| radial tables swept once, pairs read out in request order, repeats allowed) and an exact model of numpy broadcasting for the per-order '
             'scale vector. TLC checks, for every non-empty ascending subset of 0..MaxOrder and every list of pairs, that slot k holds exactly the mode '
             'requested in slot k and that the scale acts along axis 0 for every coordinate shape; the pinned (L,1) scale shape must violate that. Every '
             'emitted request is replayed into all 40 one-index *_seq forms (Jacobi with five parameter pairs, Legendre, Chebyshev 1-4, both Hermite, '
             'Laguerre, both Dickson, Qbfs, Qcon; value and derivative) and into zernike_nm_seq / zernike_nm_der_seq / Q2d_seq / xy_seq, on 0-D, 1-D, 2-D '
             'and (len(ns), q) coordinate arrays, comparing slot j with the library\'s own single-order function.',
        note='Trusted: TLC, numpy allclose at 1e-9. Bounded: orders 0..7 (quick) / 0..9, pair lists of length <= 2 / 3 from n <= 4 / 5. The single-order '
             'functions themselves are bound to their definitions by C07.',
        technique='TLA+ algorithm-machine spec (SeqSweep.tla) checked by TLC for every request; each request replayed into every *_seq routine and compared with the single-order function'),
    'C07': dict(
        spec='OrthoPoly.tla, QPoly.tla, ModQ.tla',
        text='OrthoPoly.tla defines every family by its textbook closed form (DLMF 18.5.7 for Jacobi, explicit trigonometric-equivalent sums for the four '
             'Chebyshev kinds, explicit sums for both Hermite, Laguerre, both Dickson, the factorial formula for the Zernike radial part, Qcon through '
             'Jacobi(0,4), monomials for XY/Hopkins) with rational coefficients carried exactly as residues modulo sixteen primes (ModQ.tla); it never uses '
             'the recurrences the library uses. TLC checks, for every (family, parameters, order), orthogonality against every lower order and the norm '
             'through exact moments (Jacobi family incl. alpha+beta in {0,-1}, Zernike radial parts, hence unit RMS), the Chebyshev sums against their Jacobi '
             'characterisation and end-point values. QPoly.tla defines Qbfs and 2D-Q by exact Gram-Schmidt under Forbes\' slope inner product as a step '
             'machine, calibrated on the two closed forms. The exact values at rational points are reconstructed (CRT + rational reconstruction, '
             'self-checked) and compared with prysm.polynomials.<family>(n, ..., x) in scalar, 0-D, 1-D and 2-D forms.',
        note='Trusted: TLC, the 40-line ModQ interpreter. Bounded: orders <= 10 (quick) / 20; Qbfs and 2D-Q n <= 5, m <= 3 (quick) / n <= 9, m <= 5; '
             'rational points only; orders beyond the bound are not examined.',
        technique='TLA+ specs (OrthoPoly.tla closed-form definitions + exact-moment orthogonality, QPoly.tla exact Gram-Schmidt) checked by TLC; exact values replayed into prysm.polynomials'),
    'C09': dict(
        spec='OrthoPoly.tla, PolyDefs.tla, QPoly.tla, Clenshaw.tla, ModQ.tla',
        text='Derivatives are the FORMAL derivatives of the closed-form coefficient lists of PolyDefs.tla (exact ModQ arithmetic), so "derivative of the value '
             'routine" is literal. Clenshaw.tla is the derivative-table recurrence al[jj][n] as an algorithm machine; TLC checks al[jj][0] = jj-th formal '
             'derivative of the explicit sum for every coefficient vector (dense, sparse, length 1), parameter pair, rational point and j <= 3, and the '
             'pinned seed (j instead of jj) must violate it. QPoly.tla carries the Gram-Schmidt Forbes polynomials with their phi-basis coefficients, which '
             'gives derivatives of any order in x = u^2. Replayed: every *_der function and zernike_nm_der (radial and azimuthal, both signs of m, norm '
             'on/off) against the exact derivative values; the documented entries of jacobi_sum_clenshaw_der, clenshaw_qbfs_der and clenshaw_q2d_der '
             'tables for j = 1..3; compute_z_zprime_Qbfs / _Qcon / _Q2d (z, dz/du, dz/dtheta) against sums formed from the exact per-mode values.',
        note='Added after round-2 seeding: Clenshaw parameters with alpha + beta = -1, alpha != beta in the quick tier; ragged azimuthal families in compute_z_zprime_Q2d. Trusted: TLC, ModQ interpreter. Bounded: orders <= 8 (quick) / 16, Forbes polynomials n <= 5, m <= 3 (quick) / n <= 9, m <= 5, derivative orders <= 3; '
             'only the documented table entries are compared. The ray-tracing surface helpers are covered through C19.',
        technique='TLA+ specs (formal derivatives in PolyDefs/OrthoPoly/QPoly, Clenshaw.tla derivative-recurrence machine) checked by TLC; exact derivative values replayed into prysm'),
    'C10': dict(
        spec='ModalSum.tla, Clenshaw.tla, QPoly.tla, OrthoPoly.tla',
        text='ModalSum.tla models the tensor contraction of a mode stack (law: equals the explicit accumulation for every weight pattern), the Q2d coefficient '
             'packer as a pure data-structure transformation (law: reading the packed (cm0, a[m][n], b[m][n]) back yields exactly the non-zero input terms, '
             'both families present for every m, whatever the azimuthal content) and least-squares fitting with an exact integer Gram-determinant rank guard '
             '(law: the synthesising coefficients solve the normal equations over the valid samples only). Clenshaw.tla (row 0) proves the Clenshaw sum '
             'equals the explicit sum for dense, sparse and length-1 vectors. Replayed: sum_of_2d_modes (array and list forms), Q2d_nm_c_to_a_b structure, '
             'compute_z_zprime_Q2d on the specified packing against the explicit sum of the library\'s own modes for 21 term lists (cosine only, sine only, '
             'm = 0 only, unequal lengths, repeats), jacobi_sum_clenshaw, clenshaw_qbfs and compute_z_zprime_Qbfs/_Qcon against sums of the exact modes, '
             'lstsq with NaN / +inf / -inf at the masked positions in 1-D and 2-D forms (only when the guard says full rank), and Interferogram.pvr.',
        note='Trusted: TLC, numpy.linalg.lstsq conditioning at 1e-9. Bounded: <= 3 modes over 6/9 (12) samples with masks of <= 3 positions plus rank-deficient '
             'masks; coefficient vectors of length <= 6.',
        technique='TLA+ specs (ModalSum.tla data-structure and rank-guard laws, Clenshaw.tla sum machine) checked by TLC; emitted cases replayed into prysm.polynomials fast paths and lstsq'),
    'C13': dict(
        spec='Psd.tla',
        text='Psd.tla computes |FFT(h w)|^2 of integer height maps and windows exactly (axis lengths of cyclotomic order dividing 4 or 6), lays it out on the '
             'GridLib frequency axes (zero frequency at n div 2 on both axes), and defines band membership as an exact half-open predicate on fy^2+fx^2 and the '
             'trapezoid weights explicitly. TLC checks Parseval (integral = window-weighted mean square), the DC position, Hermitian symmetry, additivity of '
             'adjacent bands as a partition of the cells (hence quadrature additivity for the linear trapezoid rule), monotonicity under widening, and the '
             'full-band bound against the rectangle rule. Replayed: interferogram.psd values and axes, Parseval on its output, bandlimited_rms for every pair of '
             'band edges (frequencies and periods, edges on and off sample frequencies) against the exact rational, additivity and monotonicity on the '
             'implementation\'s own numbers, the Interferogram methods, and render_synthetic_surface / render_from_psd (requested RMS over valid samples).',
        note='Added after round-2 seeding: law Homogeneous (PSD quadratic in the current heights) and an in-place change of the data between two psd() calls of one object. Trusted: TLC, numpy. Bounded: shapes up to 6x3 (quick) / 6x6 with axis lengths in {1,2,3,4,6}; windows passed as arrays (Hann / Welch named windows are '
             'conformed through the array path only); numpy >= 2 runtime (the only one installed).',
        technique='TLA+ spec (Psd.tla: exact integer spectrum, band partition and trapezoid-weight laws) checked by TLC; emitted cases replayed into prysm.interferogram PSD routines'),
    'C20': dict(
        spec='Jones.tla, ModQ.tla',
        text='Jones.tla builds every element of prysm.x.polarization in exact Q(i) arithmetic (pairs of ModQ rationals) on a Pythagorean menu of orientations and '
             'retardances (rational cos and sin, retardances given by their half angle so that the vortex retarder is exact too), the Mueller map '
             'U (J* (x) J) U^H and the Pauli coefficients. TLC checks for every element: retarders incl. the vortex retarder at every retardance are unitary; '
             'polarisers are idempotent and obey Malus\' law against every angle; rotating an element equals conjugating with the rotation matrix; '
             'M(J K) = M(J) M(K) and M(K J) = M(K) M(J) against arbitrary Gaussian-integer matrices; a unitary J has an orthogonal real M with M00 = 1; the Pauli '
             'coefficients reconstruct J. The pinned vortex retarder is a variant that must violate Unitary. Each state is exported with its exact J, M and '
             'Pauli coefficients and compared with the constructors (scalar and batched shapes (2,), (2,3)), jones_to_mueller (scalar and broadcast), '
             'pauli_coefficients / pauli_spin_matrix; jones_adapter-wrapped focus, unfocus, both fixed-sampling routines and angular_spectrum are compared '
             'with the component-wise calls.',
        note='Added after round-2 seeding: polarised propagation of nearly-equal-component and dim Jones fields (tolerance relative to each component); Pauli coefficients of a (2, 3) batch. Trusted: TLC, ModQ interpreter. Bounded: 4 (quick) / 7 Pythagorean orientations, 3 / 5 retardances, charges 1..2 / 1..3, 2 / 4 arbitrary matrices; '
             'irrational angles are not evaluated.',
        technique='TLA+ spec (Jones.tla: exact Q(i) matrices, group laws) checked by TLC; exact element matrices replayed into prysm.x.polarization'),
    'C17': dict(
        spec='ThinFilm.tla, Gauss.tla, ModQ.tla',
        text='ThinFilm.tla is the characteristic-matrix calculus in exact Q(i) arithmetic on a Pythagorean family: rational ambient index and sine of incidence, '
             'layers given by index and the rational cosine of the refracted angle (Snell\'s law checked exactly), phase thicknesses with rational cos and sin, '
             'the substrate as last entry (layer and exit medium, as in the library), admittances for s and p. TLC checks for every stack of the menu and both '
             'polarisations: R + T (n_e cos_e)/(n_0 cos_0) = 1, a single interface equals the Fresnel closed forms with r_p = 0 at Brewster\'s angle, a '
             'zero-thickness layer changes r and t not at all and a half-wave layer leaves R and T unchanged; the pinned fresnel_rp denominator is a variant '
             'that must violate the Fresnel law. Every state is exported with exact r and t and replayed into multilayer_stack_rt (scalar, and batched shapes '
             '(3,), (1,3) against the per-element loop), fresnel_rs/ts/rp/tp, snell_aor, brewsters_angle and critical_angle.',
        note='Trusted: TLC, ModQ interpreter. Bounded: 4 ambient/incidence configurations (normal, two oblique incl. Brewster geometry, ambient 4/3), 4 media each, 5 (6) phase '
             'thicknesses, <= 1 (2) thin layers plus substrate. Absorbing layers (the R+T<=1 form) are outside the exact family and not covered.',
        technique='TLA+ spec (ThinFilm.tla: exact characteristic matrices over Q(i)) checked by TLC; exact r, t replayed into prysm.thinfilm'),
    'C19': dict(
        spec='RayTrace.tla, Rat.tla',
        text='RayTrace.tla is the per-surface pipeline ToLocal -> Intersect -> Bend -> ToGlobal on exact rational 3-vectors, on a family constructed backwards from '
             'the answer: rational points of planes, spheres and paraboloids (vertex included) with their rational unit normals, rays with Pythagorean angles of '
             'incidence, refraction index ratios chosen so that the refracted angle is Pythagorean too, rational rotation matrices and decentres. TLC checks '
             'the menu is sound (points on the surface, normals parallel to the gradient), unit lengths, the mirror law, the vector form of Snell\'s law and '
             'the plane of incidence, rigidity and self-inverse of the frame transformation, and a second plane-mirror surface; the pinned gradient-as-normal '
             'variant must violate Snell off axis. Every state is replayed into Surface.plane/sphere/conic + raytrace (one- and two-surface prescriptions) '
             'and transform_to_local/global_coords and compared with the exact hit point and direction cosines; make_rotation_matrix frames are checked for rigidity. '
             'The spec also carries the running refractive index of a prescription (only refracting surfaces change it; three-surface glass prescription with '
             'an evaluation plane inside the medium), off-axis sections of the same parent surface (replayed into Surface.off_axis_conic with dx and dy shifts) '
             'and rays that meet the surface from the +z side.',
        note='Added after round-2 seeding: a general conic (k = -19/36) incl. off-axis sections; every group of rays sharing a surface is also traced as one (N, 3) batch. Trusted: TLC, numpy. Bounded: 11 hit geometries x 6 incidences x 9 bends x 3 (4) frames x 3 (5) off-axis shifts; Q-type surfaces are outside the rational '
             'family (their sag/derivatives are bound through C07/C09). Known findings: rays so steep that they cross the vertex plane outside the sag domain return NaN; '
             'the ray through the local origin of a dy-shifted off-axis conic gets the normal (0,0,1).',
        technique='TLA+ spec (RayTrace.tla: exact rational ray/surface geometry, Snell and mirror laws) checked by TLC; exact hit points and directions replayed into prysm.x.raytracing'),
    'C18': dict(
        spec='Aperture.tla, HexRing.tla, HexLib.tla, GridLib.tla',
        text='HexLib.tla provides exact arithmetic in Z[sqrt 3] (sign by comparing a^2 with 3 b^2), hexagonal cube coordinates and the direction table of the '
             'multiples of 30 degrees. HexRing.tla is prysm.segmented.hex_ring as a step machine (one action per loop iteration: Step, Rotate); TLC checks in every '
             'state that recorded tiles are distinct, on the ring and chained, that the walk closes with 6k tiles and equals the closed form, and the id / '
             'exclusion bookkeeping; a wrong-turn variant must violate. Aperture.tla gives every sample an exact three-valued class (in / out / tie) for hexagonal '
             'segments (both orientations, windows, OPD accumulation), keystone segments with 2, 3, 4, 6, 12 segments per ring (annular sectors, gap strips, bounding-box '
             'windows) and the mask primitives (circle, offset circle, annulus, rectangle and ellipse with Pythagorean rotations, regular polygons with 3, 4, 6, 12 sides, '
             'spiders with 1-6 vanes). TLC checks: segment count under exclusion, windows contain their segments (the two pinned window computations must violate), no '
             'sample in two segments, centres a pitch apart, area to within the boundary rasterisation, OPD confined and linear, the sectors of a ring partition its '
             'annulus, every transmitting sample in exactly one segment, primitives monotone in their size and symmetric. Every state is replayed into '
             'CompositeHexagonalAperture (segment_ids, all_centers, windows + local_masks, amp, prepare_opd_bases + compose_opd), CompositeKeystoneAperture and prysm.geometry; '
             'every non-tie sample must agree.',
        note='Added after round-2 seeding: azimuthal_gap = 0 keystone cases and an asymmetric spider centre are always in the quick tier. Trusted: TLC, numpy, scipy.spatial. Bounded: grids 14..25 per axis (odd, even, non-square), rings 1..2 (0..2), 4 exclusion sets, 4 (7) diameter/gap/sampling triples, '
             '8 keystone ring layouts, about 100 primitive parameter sets; lengths integer multiples of a unit, angles multiples of 30 degrees or Pythagorean. Samples exactly on '
             'a boundary are not compared.',
        technique='TLA+ specs (HexRing.tla step machine; Aperture.tla exact Z[sqrt 3] membership, tiling laws) checked by TLC; every state replayed into prysm.segmented and prysm.geometry'),
    'C06': dict(
        spec='Adjoint.tla, Grad.tla, ModQ.tla, Rat.tla, GridLib.tla',
        text='Adjoint.tla is a reverse-mode tape machine: Forward applies the next stage of a program and pushes it, Backprop pops the tape and applies the '
             'stage\'s adjoint; the machine carries the image of every input basis vector and, backwards, of every output basis vector, in exact Z[zeta_M] arithmetic '
             '(coefficient vectors over a common denominator). Stages: matrix-DFT kernels as MatrixDFTExecutor builds them (both coordinate vectors shifted, per-axis Q), '
             'element-wise masks built from roots of unity, integer finite-difference matrices, real mode stacks, skip connections (x - body(x)), the DM pipeline '
             '(actuator lattice of prepare_actuator_lattice, circular convolution with the influence function, integer shift, fftshift, gain, Fourier resampling as '
             'FFT + zoomed inverse matrix DFT + real part, pad / crop by the origin rule). TLC checks on every program: tape discipline, shapes, the normalisation '
             'bookkeeping, the lattice, and B[i][o] = conj(A[o][i]) for ALL basis pairs (real inner product for the real DM programs); variants no-conj, negated and '
             'forward-order must violate. The exact operators A and B are replayed into mdft.dft2/idft2 (+_backprop), Wavefront.focus_fixed_sampling(_backprop), '
             'unfocus_fixed_sampling(_backprop), to_fpm_and_back(_backprop), babinet(_backprop), sum_of_2d_modes(_backprop), SpatialGradient2D and DM.render/render_backprop. '
             'Grad.tla covers the non-linear nodes in exact rational arithmetic (ModQ) with dual numbers as the independent definition of the derivative: Sigmoid, Tanh, '
             'Softplus, Arctan on the ln-rational family; Softmax, GumbelSoftmax (temperature) and DiscreteEncoder (levels) as a node WITH MEMORY whose histories of '
             'forward calls followed by a backprop are explored (the result must be the vector-Jacobian product at the LAST forward input; a stale-forward variant must '
             'violate); mean_square_error, bias_and_gain_invariant_error, negative_loglikelihood with and without masks (a per-sample-bias variant must violate); '
             'intensity and amplitude-and-phase. Every state is replayed into prysm.x.optym and Wavefront.',
        note='Trusted: TLC, ModQ interpreter, numpy. Bounded: 130 (quick) linear programs on shapes 2..5 (DM: 4..8) with Q in {1, 2, 3/2}, NQ in {2, 3, 5/2}, shifts 0, 1, 1/2, '
             'binary / real / complex masks and Lyot stops, pupil != mask size; 128 activation cases, 15 softmax-family cases x histories up to 3, 24 cost cases, 4 field cases. '
             'DM with rotation (spline warp), sub-sample DM shifts and the production Gumbel rng are outside the exact family.',
        technique='TLA+ specs (Adjoint.tla reverse-mode tape machine over exact cyclotomic arrays; Grad.tla exact dual-number derivatives, stateful node histories) checked by TLC; exact operators, values and gradients replayed into the forward and *_backprop routines'),
}

NOT_BUILT_REASON = 'not built yet in this round (specification planned in DESIGN.md section 4; never decided by another technique)'


def main():
    sha = subprocess.run(['git', '-C', '/repo', 'log', '--format=%h %s'], capture_output=True, text=True).stdout.splitlines()
    hooks = [l.split()[0] for l in sha if l.split(' ', 1)[1].startswith('verif-hook:')]
    m = {
        'version': 1,
        'setup_cmd': './check --setup',
        'hooks': {
            'guard': 'PRYSM_VERIF',
            'enable': 'no source hooks are needed: all observation is through public API; PRYSM_VERIF is reserved',
            'baseline_off_cmd': 'env -u PRYSM_VERIF /verif/tools/baseline.py',
            'source_commits': hooks,
            'add_only': True,
        },
        'engines': [
            {'name': 'tlc', 'path': '/opt/veriftools/tla/tla2tools.jar', 'serves_properties': sorted(BUILT),
             'kind_free_text': 'explicit-state model checker for the TLA+ specifications under /verif/spec'},
        ],
        'checks': [],
        'notes': 'Every check = TLC on an explicit TLA+ spec (laws proved on the model) + replay of the TLC-generated behaviours into '
                 'the real prysm code (and, for history machines, validation of recorded implementation traces against the spec). '
                 'Exit 0 held / 1 violation / 2 machinery failure. See DESIGN.md.',
        'not_applicable': [],
    }
    for p in ALL:
        if p in BUILT:
            b = BUILT[p]
            m['checks'].append({
                'property_id': p,
                'quick_cmd': './check %s --tier quick' % p,
                'thorough_cmd': './check %s --tier thorough' % p,
                'evidence_file': '/verif/evidence/%s.json' % p,
                'replay_cmd_template': './check %s --replay {path}' % p,
                'engine': 'tlc',
                'level_claimed': {'category': 'model_checking', 'text': b['text'], 'design_ref': 'DESIGN.md section 4, ' + p},
                'level_note': b['note'],
                'technique': b['technique'],
            })
        else:
            m['not_applicable'].append({'property_id': p, 'reason': NOT_BUILT_REASON})
    with open(os.path.join(V, 'MANIFEST.json'), 'w') as f:
        json.dump(m, f, indent=1)
    print('MANIFEST.json: %d checks, %d not_applicable' % (len(m['checks']), len(m['not_applicable'])))


if __name__ == '__main__':
    main()

#!/usr/bin/env python3-vt
"""Validate MANIFEST.json and every evidence file against the schemas (uses the tooling venv's jsonschema)."""
import glob, json, sys
import jsonschema
bad = 0
m = json.load(open('/verif/MANIFEST.json'))
try:
    jsonschema.validate(m, json.load(open('/root/.vp/MANIFEST.schema.json'))); print('MANIFEST ok')
except Exception as e:
    print('MANIFEST INVALID', e); bad = 1
es = json.load(open('/root/.vp/EVIDENCE.schema.json'))
for f in sorted(glob.glob('/verif/evidence/*.json')):
    try:
        jsonschema.validate(json.load(open(f)), es); print('ok', f)
    except Exception as e:
        print('INVALID', f, str(e)[:300]); bad = 1
props = {json.loads(l)['id'] for l in open('/verif/properties.jsonl')}
claimed = {c['property_id'] for c in m['checks']}
na = {c['property_id'] for c in m.get('not_applicable', [])}
if claimed | na != props or claimed & na:
    print('claimed+not_applicable != properties:', sorted(props - claimed - na), sorted(claimed & na)); bad = 1
sys.exit(bad)

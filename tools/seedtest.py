#!/venv/bin/python
"""Confirm and try one seeded change.

usage: seedtest.py <src_dir with patch.diff demo.py meta.json> <seed-id> <property> [--tier quick] [--skip-confirm]

1. confirm in a scratch worktree of /repo: demo passes without the patch, fails with it, and the pinned
   suite's stable tests still pass with it;  2. copy to /verif/seeded/<seed-id>/;  3. apply to /repo, run the
   property's check, undo;  4. record the outcome in meta.json ("detected": true/false, signatures).
"""
import json
import os
import shutil
import subprocess
import sys
import tempfile

V = '/verif'


def sh(cmd, **kw):
    return subprocess.run(cmd, shell=True, capture_output=True, text=True, **kw)


def main():
    src, sid, prop = sys.argv[1:4]
    tier = 'quick'
    if '--tier' in sys.argv:
        tier = sys.argv[sys.argv.index('--tier') + 1]
    confirm = '--skip-confirm' not in sys.argv
    patch = os.path.join(src, 'patch.diff')
    meta = json.load(open(os.path.join(src, 'meta.json')))
    ran = []
    if confirm:
        wt = tempfile.mkdtemp(prefix='seedwt_')
        os.rmdir(wt)
        assert sh('git -C /repo worktree add -q --detach %s HEAD' % wt).returncode == 0
        try:
            env = dict(os.environ, PYTHONPATH=wt)
            r0 = subprocess.run(['/venv/bin/python', os.path.join(src, 'demo.py')], env=env, capture_output=True, text=True, cwd=wt)
            a = sh('git -C %s apply %s' % (wt, patch))
            if a.returncode != 0:
                print('PATCH DOES NOT APPLY', a.stderr)
                return 3
            r1 = subprocess.run(['/venv/bin/python', os.path.join(src, 'demo.py')], env=env, capture_output=True, text=True, cwd=wt)
            b = sh('/verif/tools/baseline.py %s' % wt)
            ran += ['demo on clean tree: rc=%d' % r0.returncode, 'demo with patch: rc=%d' % r1.returncode,
                    'baseline with patch: ' + b.stdout.strip().splitlines()[0]]
            print('\n'.join(ran))
            if r0.returncode != 0 or r1.returncode == 0 or b.returncode != 0:
                print('NOT CONFIRMED', r0.stderr[-500:], r1.stderr[-300:], b.stdout[-500:])
                return 3
        finally:
            sh('git -C /repo worktree remove --force %s' % wt)
    dst = os.path.join(V, 'seeded', sid)
    os.makedirs(dst, exist_ok=True)
    for f in ('patch.diff', 'demo.py'):
        shutil.copy(os.path.join(src, f), os.path.join(dst, f))
    assert sh('git -C /repo status --porcelain').stdout.strip() == '', '/repo not clean'
    a = sh('git -C /repo apply %s' % patch)
    assert a.returncode == 0, a.stderr
    try:
        c = sh('cd /verif && ./check %s --tier %s' % (prop, tier))
    finally:
        sh('git -C /repo checkout -- .')
    sigs = [l.strip() for l in c.stdout.splitlines() if l.startswith('VIOLATION') or l.strip().startswith('signature=')]
    detected = c.returncode == 1
    if not ran and os.path.exists(os.path.join(dst, 'meta.json')):
        ran = json.load(open(os.path.join(dst, 'meta.json'))).get('confirmed', [])
    meta.update({'property': prop, 'confirmed': ran, 'check_cmd': './check %s --tier %s' % (prop, tier),
                 'check_rc': c.returncode, 'detected': detected, 'signatures': [s[:300] for s in sigs][:12]})
    json.dump(meta, open(os.path.join(dst, 'meta.json'), 'w'), indent=1)
    print('check rc=%d detected=%s' % (c.returncode, detected))
    print('\n'.join(sigs[:8]))
    if c.returncode == 2:
        print(c.stdout[-1500:])
    # restore evidence of the clean tree is the caller's job (re-run the check)
    return 0 if detected else 1


if __name__ == '__main__':
    sys.exit(main())

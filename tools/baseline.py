#!/venv/bin/python
"""Run the repository's pinned suite (guard off) and compare with BASELINE.json's stable_pass."""
import json, os, subprocess, sys, tempfile, xml.etree.ElementTree as ET
base = json.load(open('/root/.vp/BASELINE.json'))
want = set(base['stable_pass'])
repo = sys.argv[1] if len(sys.argv) > 1 else '/repo'
with tempfile.TemporaryDirectory() as d:
    x = os.path.join(d, 'j.xml')
    env = dict(os.environ); env.pop('PRYSM_VERIF', None)
    subprocess.run(['/venv/bin/python', '-m', 'pytest', '-q', '-p', 'no:cacheprovider', '--timeout=900',
                    '--continue-on-collection-errors', '--junitxml=' + x], cwd=repo, env=env,
                   stdout=subprocess.DEVNULL, stderr=subprocess.DEVNULL)
    passed = set()
    for tc in ET.parse(x).getroot().iter('testcase'):
        if not any(c.tag in ('failure', 'error', 'skipped') for c in tc):
            passed.add(tc.get('classname') + '::' + tc.get('name'))
missing = sorted(want - passed)
print(f'baseline: {len(want & passed)}/{len(want)} stable tests pass; extra passing: {len(passed - want)}')
for m in missing: print('  NOT PASSING:', m)
sys.exit(1 if missing else 0)

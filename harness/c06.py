"""C06 -- every backprop routine returns the true gradient of its forward routine.
Specs: Adjoint.tla (reverse-mode tape machine over exact Z[zeta_M] arrays: linear routines; the law B = A^H is checked by TLC
on every program) and Grad.tla (non-linear nodes in exact rational arithmetic with dual numbers: activations, softmax family
with its remembered forward, encoders, cost functions, intensity, phase).  Binding: the exact operator matrices A (forward)
and B (adjoint) that the tape machine ends with are replayed into the real forward and *_backprop routines; the exact values
and gradients of the non-linear nodes are replayed into prysm.x.optym and Wavefront."""
import cmath
import itertools
import json
import math
from fractions import Fraction

from . import core, modq

PROP = 'C06'


# ---------------------------------------------------------------------------------------------- building programs
def lcm(*xs):
    out = 1
    for x in xs:
        out = out * x // math.gcd(out, x)
    return out


class Axis:
    def __init__(self, n, m, q, s=(0, 1)):
        self.n, self.m, self.q, self.s = n, m, q, s

    @property
    def L(self):
        return self.n * self.q[0] * self.s[1] * self.s[1]

    @property
    def normsq(self):
        return Fraction(self.q[1], self.n * self.q[0])

    def tla(self):
        return '[n |-> %d, m |-> %d, q |-> <<%d, %d>>, s |-> <<%d, %d>>]' % (self.n, self.m, self.q[0], self.q[1], self.s[0], self.s[1])


def rat(f):
    f = Fraction(f)
    return '<<%d, %d>>' % (f.numerator, f.denominator)


def mat(rows):
    return '<<%s>>' % ', '.join('<<%s>>' % ', '.join(str(int(v)) for v in r) for r in rows)


def dft_stage(row, col, direction, rational_norm=False):
    nsq = row.normsq * col.normsq
    if rational_norm:
        sc = Fraction(math.isqrt(nsq.numerator), math.isqrt(nsq.denominator))
        assert sc * sc == nsq, nsq
        left = Fraction(1)
    else:
        sc, left = Fraction(1), nsq
    return dict(op='dft', row=row, col=col, dir=direction, sc=sc, c2left=left,
                tla='[op |-> "dft", dir |-> %d, row |-> %s, col |-> %s, sc |-> %s, c2left |-> %s]' % (direction, row.tla(), col.tla(), rat(sc), rat(left)))


def mask_stage(z, e):
    return dict(op='mask', z=z, e=e, tla='[op |-> "mask", z |-> %s, e |-> %s]' % (mat(z), mat(e)))


def int_stage(L, R):
    return dict(op='int', tla='[op |-> "int", L |-> %s, R |-> %s]' % (mat(L), mat(R)))


def modes_stage(modes):
    return dict(op='modes', modes=modes, tla='[op |-> "modes", modes |-> <<%s>>]' % ', '.join(mat(m) for m in modes))


def skip_stage(body):
    return dict(op='skipminus', body=body, tla='[op |-> "skipminus", body |-> <<%s>>]' % ', '.join(b['tla'] for b in body))


def moduli(stages):
    out = []
    for st in stages:
        if st['op'] == 'dft':
            out += [st['row'].L, st['col'].L]
        elif st['op'] == 'skipminus':
            out += moduli(st['body'])
    return out


def c2left(stages):
    out = Fraction(1)
    for st in stages:
        if st['op'] == 'dft':
            out *= st['c2left']
    return out


def program(name, kind, shape, stages, mask_mod=1, **params):
    M = lcm(mask_mod, *moduli(stages))
    return dict(name=name, kind=kind, shape=shape, stages=stages, mod=M, params=params, c2left=c2left(stages),
                tla='[name |-> "%s", mod |-> %d, shape |-> <<%d, %d>>, stages |-> <<%s>>]' % (name, M, shape[0], shape[1], ', '.join(s['tla'] for s in stages)))


def ident(n):
    return [[1 if i == j else 0 for j in range(n)] for i in range(n)]


def diffmat(n):
    """forward difference on the interior: row l (1 <= l <= n-2, 0-based): out[l] = x[l+1] - x[l]; first and last rows zero."""
    D = [[0] * n for _ in range(n)]
    for l in range(1, n - 1):
        D[l][l + 1] = 1
        D[l][l] = -1
    return D


def mask_for(shape, M, kind):
    r, c = shape
    if kind == 'binary':
        return [[1 if (a + 2 * b) % 3 else 0 for b in range(c)] for a in range(r)], [[0] * c for _ in range(r)]
    if kind == 'real':
        return [[((2 * a + b) % 4) - 1 for b in range(c)] for a in range(r)], [[0] * c for _ in range(r)]
    # complex: z * zeta_M^e with e != 0 somewhere
    return [[1 + ((a + b) % 2) for b in range(c)] for a in range(r)], [[(3 * a + 5 * b + 1) % M for b in range(c)] for a in range(r)]


def programs(tier):
    out = []
    quick = tier == 'quick'
    # 1-2: matrix DFT forward / inverse
    shapes = [((2, 3), (3, 2)), ((3, 3), (4, 4)), ((4, 2), (2, 4)), ((3, 4), (3, 4))]
    qs = [((1, 1), (1, 1)), ((2, 1), (3, 2)), ((3, 2), (2, 1))]
    shifts = [((0, 1), (0, 1)), ((1, 1), (0, 1)), ((1, 2), (-1, 1))]
    n = 0
    for (sin, sout), (qr, qc), (sx, sy), d in itertools.product(shapes, qs, shifts, (1, -1)):
        n += 1
        if quick and n % 3 != 1:
            continue
        row, col = Axis(sin[0], sout[0], qr, sy), Axis(sin[1], sout[1], qc, sx)
        out.append(program('mdft%d' % n, 'dft2' if d == 1 else 'idft2', sin, [dft_stage(row, col, d)], qr=qr, qc=qc, sx=sx, sy=sy, out=sout))
    # 3-4: fixed-sampling focus / unfocus (Q derived from the sampling: n Q = lambda z / (dx dx') = NQ on both axes)
    n = 0
    for (sin, sout), nq, (sx, sy), d in itertools.product(shapes, ((2, 1), (3, 1), (5, 2)), shifts[:2], (1, -1)):
        n += 1
        if quick and n % 3 != 1:
            continue
        row, col = Axis(sin[0], sout[0], (nq[0], nq[1] * sin[0]), sy), Axis(sin[1], sout[1], (nq[0], nq[1] * sin[1]), sx)
        out.append(program('fixed%d' % n, 'focus_fixed' if d == 1 else 'unfocus_fixed', sin, [dft_stage(row, col, d, rational_norm=True)], nq=nq, sx=sx, sy=sy, out=sout))
    # 5-6: to the focal-plane mask and back; Babinet with a Lyot stop
    n = 0
    for (pupil, fpm), nq, mk, lk in itertools.product([((2, 2), (2, 2)), ((3, 3), (3, 3)), ((3, 3), (2, 2)), ((2, 3), (3, 2)), ((2, 2), (4, 4))],
                                                      ((2, 1), (3, 1)), ('binary', 'real', 'complex'), ('none', 'real', 'complex')):
        n += 1
        if quick and n % 3 != 1:
            continue
        f_row, f_col = Axis(pupil[0], fpm[0], (nq[0], nq[1] * pupil[0])), Axis(pupil[1], fpm[1], (nq[0], nq[1] * pupil[1]))
        u_row, u_col = Axis(fpm[0], pupil[0], (nq[0], nq[1] * fpm[0])), Axis(fpm[1], pupil[1], (nq[0], nq[1] * fpm[1]))
        Mk = lcm(f_row.L, f_col.L, u_row.L, u_col.L, 4)
        z, e = mask_for(fpm, Mk, mk)
        body = [dft_stage(f_row, f_col, 1, True), mask_stage(z, e), dft_stage(u_row, u_col, -1, True)]
        if lk == 'none':
            out.append(program('fpm%d' % n, 'to_fpm_and_back', pupil, body, mask_mod=Mk, nq=nq, fpm=fpm, mask=(z, e), maskkind=mk))
        stages = [skip_stage(body)]
        lz = le = None
        if lk != 'none':
            lz, le = mask_for(pupil, Mk, lk)
            stages.append(mask_stage(lz, le))
        out.append(program('babinet%d' % n, 'babinet', pupil, stages, mask_mod=Mk, nq=nq, fpm=fpm, mask=(z, e), lyot=None if lz is None else (lz, le), maskkind=mk, lyotkind=lk))
    # 7: modal sums
    for K, (r, c) in ((1, (2, 2)), (3, (2, 3)), (4, (3, 2))):
        modes = [[[((k * 7 + a * 3 + b * 5) % 9) - 4 for b in range(c)] for a in range(r)] for k in range(K)]
        out.append(program('modes%dx%dx%d' % (K, r, c), 'modes', (K, 1), [modes_stage(modes)], modes=modes))
    # 8: finite differences
    for r, c in ((3, 3), (4, 4), (3, 5), (5, 3), (5, 5)):
        out.append(program('gradx%dx%d' % (r, c), 'gradx', (r, c), [int_stage(ident(r), diffmat(c))]))
        out.append(program('grady%dx%d' % (r, c), 'grady', (r, c), [int_stage(diffmat(r), ident(c))]))
    return out


def cfg_lin(progs, emit, variant='design'):
    laws = ('TapeDiscipline', 'ShapeLaw', 'AdjointLaw', 'NormLaw', 'Nonzero')
    c = 'INIT Init\nNEXT Next\nCHECK_DEADLOCK FALSE\nCONSTANTS\n Variant = "%s"\n EmitOn = %s\n' % (variant, 'TRUE' if emit else 'FALSE')
    c += 'INVARIANT Emit\n' if emit else ''.join('INVARIANT %s\n' % i for i in laws)
    return c, dict(Programs='<<%s>>' % ', '.join(p['tla'] for p in progs))


# ---------------------------------------------------------------------------------------------- replay of linear programs
def cv(v, M):
    return sum(c * cmath.exp(2j * math.pi * e / M) for e, c in enumerate(v) if c)


def operator(np, cols, M):
    """columns (one array per basis vector) -> dense matrix (out_flat x in_flat)"""
    mats = []
    for col in cols:
        mats.append(np.array([[cv(x, M) for x in row] for row in col['v']]).ravel() / col['den'])
    return np.array(mats).T


def frac(t):
    return t[0] / t[1]


def mask_array(np, ze, M):
    z, e = ze
    return np.array([[zz * cmath.exp(2j * math.pi * ee / M) for zz, ee in zip(zr, er)] for zr, er in zip(z, e)])


def realish(np, a):
    return a.real.copy() if core.maxabs(a.imag) < 1e-14 else a


def impl_pair(np, p):
    """returns (forward(x), backprop(ybar), output shape) closures over the real routines"""
    from prysm.fttools import mdft
    from prysm import propagation as PR
    from prysm.polynomials import sum_of_2d_modes, sum_of_2d_modes_backprop
    from prysm.x.optym.operators import SpatialGradient2D
    k, q = p['kind'], p['params']
    shape = p['shape']
    if k in ('dft2', 'idft2'):
        Q = (frac(q['qr']), frac(q['qc']))
        shift = (frac(q['sx']), frac(q['sy']))
        if k == 'dft2':
            return (lambda x: mdft.dft2(x, Q, q['out'], shift=shift)), (lambda yb: mdft.dft2_backprop(yb, Q, shape, shift=shift)), q['out']
        return (lambda x: mdft.idft2(x, Q, q['out'], shift=shift)), (lambda yb: mdft.idft2_backprop(yb, Q, shape, shift=shift)), q['out']
    wvl, dx, fdx = 1.0, 0.5, 2.0
    if k in ('focus_fixed', 'unfocus_fixed'):
        efl = frac(q['nq']) * dx * fdx
        sx, sy = frac(q['sx']), frac(q['sy'])
        if k == 'focus_fixed':
            shift = (sx * fdx, sy * fdx)          # physical units of the output plane
            fwd = lambda x: PR.Wavefront(x, wvl, dx, 'pupil').focus_fixed_sampling(efl, fdx, q['out'], shift=shift).data
            bwd = lambda yb: PR.Wavefront(yb, wvl, fdx, 'psf').focus_fixed_sampling_backprop(efl, dx, shape, shift=shift).data
            return fwd, bwd, q['out']
        shift = (sx * dx, sy * dx)
        fwd = lambda x: PR.Wavefront(x, wvl, fdx, 'psf').unfocus_fixed_sampling(efl, dx, q['out'], shift=shift).data
        bwd = lambda yb: PR.unfocus_fixed_sampling_backprop(yb, fdx, efl, wvl, dx, shape, shift=shift)
        return fwd, bwd, q['out']
    if k in ('to_fpm_and_back', 'babinet'):
        efl = frac(q['nq']) * dx * fdx
        m = mask_array(np, q['mask'], p['mod'])
        if q['maskkind'] != 'complex':
            m = m.real.copy()
        if k == 'to_fpm_and_back':
            fwd = lambda x: PR.Wavefront(x, wvl, dx, 'pupil').to_fpm_and_back(efl, m, fdx).data
            bwd = lambda yb: PR.Wavefront(yb, wvl, dx, 'pupil').to_fpm_and_back_backprop(efl, m, fdx).data
            return fwd, bwd, shape
        lyot = None
        if q['lyot'] is not None:
            lyot = mask_array(np, q['lyot'], p['mod'])
            if q['lyotkind'] != 'complex':
                lyot = lyot.real.copy()
        fpm = 1 - m                                # the routine forms 1 - fpm itself
        fwd = lambda x: PR.Wavefront(x, wvl, dx, 'pupil').babinet(efl, lyot, fpm, fdx).data
        bwd = lambda yb: PR.Wavefront(yb, wvl, dx, 'pupil').babinet_backprop(efl, lyot, fpm, fdx).data
        return fwd, bwd, shape
    if k == 'modes':
        modes = np.array(q['modes'], dtype=float)
        return (lambda w: sum_of_2d_modes(modes, w.ravel().real)), (lambda yb: np.asarray(sum_of_2d_modes_backprop(modes, yb)).reshape(-1, 1)), modes.shape[1:]
    g = SpatialGradient2D()
    if k == 'gradx':
        return g.forward_x, g.backprop_x, shape
    return g.forward_y, g.backprop_y, shape


def replay_lin(rec, p, ctx, np):
    M = rec['mod']
    scale = math.sqrt(float(p['c2left']))
    A = operator(np, rec['A'], M) * scale
    B = operator(np, rec['B'], M) * scale
    k = p['kind']
    shape = tuple(p['shape'])
    tag = k
    if k in ('to_fpm_and_back', 'babinet'):
        q = p['params']
        tag += ':%s-mask:%s' % (q['maskkind'], 'same-size' if tuple(q['fpm']) == shape else 'mask!=pupil')
        if k == 'babinet':
            tag += ':lyot-%s' % q['lyotkind']
    elif k in ('dft2', 'idft2', 'focus_fixed', 'unfocus_fixed'):
        q = p['params']
        tag += ':%s:%s' % ('square' if shape[0] == shape[1] and q['out'][0] == q['out'][1] else 'non-square', 'shifted' if (q['sx'][0] or q['sy'][0]) else 'centred')
    elif k in ('gradx', 'grady'):
        tag += ':%s' % ('square' if shape[0] == shape[1] else 'non-square')
    desc = '%s %s params=%s' % (p['name'], shape, {a: b for a, b in p['params'].items() if a not in ('mask', 'lyot', 'modes')})
    ctx.replayed(1, key=p['name'])
    if core.maxabs(B - A.conj().T) > 1e-9:
        raise core.Machinery('emitted B is not A^H for %s' % p['name'])
    rng = np.random.RandomState(ctx.seed + len(p['name']))
    real_in = k in ('modes', 'gradx', 'grady')
    try:
        fwd, bwd, oshape = impl_pair(np, p)
        for trial in range(2):
            x = rng.normal(size=shape) + (0 if real_in else 1j * rng.normal(size=shape))
            want = (A @ x.ravel()).reshape(oshape)
            got = np.asarray(fwd(x.copy()))
            if got.shape != tuple(oshape) or core.maxabs(got - want) > 1e-9 * max(1.0, float(np.abs(want).max())):
                ctx.fail('Lin:forward:' + tag, '%s: forward differs from the exact operator: shape %s, max |diff| %.3g' % (desc, got.shape, core.maxabs(got - want) if got.shape == tuple(oshape) else float('nan')), {'program': p['name'], 'lin': rec})
                return
            yb = rng.normal(size=oshape) + (0 if k in ('gradx', 'grady') else 1j * rng.normal(size=oshape))
            wantb = (B @ yb.ravel()).reshape(shape)
            gotb = np.asarray(bwd(yb.copy()))
            if gotb.shape != shape:
                ctx.fail('Lin:backprop-shape:' + tag, '%s: backprop returned shape %s, want %s' % (desc, gotb.shape, shape), {'program': p['name'], 'lin': rec})
                return
            if k == 'modes':
                wantb = wantb  # complex upstream gradient: the adjoint of a real operator acts on both parts
            err = core.maxabs(gotb - wantb)
            if err > 1e-9 * max(1.0, float(np.abs(wantb).max())):
                lhs = np.vdot(yb.ravel(), got.ravel() if False else (A @ x.ravel()))
                rhs = np.vdot(gotb.ravel(), x.ravel())
                how = 'negated' if core.maxabs(gotb + wantb) < 1e-9 else ('unconjugated mask' if False else 'differs')
                ctx.fail('Lin:backprop:%s:%s' % (how, tag), '%s: backprop is not the conjugate transpose of forward: max |diff| %.3g; <y, A x> = %s but <backprop(y), x> = %s'
                         % (desc, err, complex(lhs), complex(rhs)), {'program': p['name'], 'lin': rec})
                return
    except Exception as ex:
        import traceback
        if not any('/prysm/' in f.filename for f in traceback.extract_tb(ex.__traceback__)):
            raise
        ctx.fail('Lin:raised:' + tag, '%s: %s: %s' % (desc, type(ex).__name__, str(ex)[:300]), {'program': p['name'], 'lin': rec})


def chunks(xs, n):
    k = max(1, (len(xs) + n - 1) // n)
    return [xs[i:i + k] for i in range(0, len(xs), k)]


def run_linear(ctx, np, selftest):
    progs = programs(ctx.tier)
    by_name = {p['name']: p for p in progs}
    # laws on 16 workers, programs spread over a few runs (a run explores its programs' tape machines exhaustively)
    waits = []
    for n, part in enumerate(chunks(progs, 4)):
        c, d = cfg_lin(part, False)
        waits.append(lambda c=c, d=d, n=n: ctx.tlc('Adjoint', c, defs=d, name='tape-laws-%d' % n, emit=False, workers=4, coverage=(n == 0), require_actions=('Forward', 'Turn', 'Backprop', 'Finish') if n == 0 else (), timeout=3000))
    for r in core.parallel(waits, max_workers=4):
        pass
    small = [p for p in progs if p['kind'] == 'babinet' and tuple(p['params']['fpm']) == tuple(p['shape']) and p['params']['maskkind'] == 'complex'][:2]
    for variant in ('no-conj', 'negated', 'forward-order'):
        c, d = cfg_lin(small, False, variant=variant)
        ctx.tlc('Adjoint', c, defs=d, name='pinned-' + variant, emit=False, must_hold=False, count=False, coverage=False)
    thunks = []
    for n, part in enumerate(chunks(progs, 8)):
        c, d = cfg_lin(part, True)
        thunks.append(lambda c=c, d=d, n=n: ctx.tlc('Adjoint', c, defs=d, name='tape-emit-%d' % n, coverage=False, count=False, timeout=3000))
    recs = []
    for part in core.parallel(thunks):
        recs += part.records
    if sorted(r['name'] for r in recs) != sorted(by_name):
        raise core.Machinery('tape machine emitted %d operators for %d programs' % (len(recs), len(progs)))
    for rec in recs:
        replay_lin(rec, by_name[rec['name']], ctx, np)
    if selftest:
        rec = json.loads(json.dumps(next(r for r in recs if by_name[r['name']]['kind'] == 'dft2')))
        p = dict(by_name[rec['name']])
        p['c2left'] = p['c2left'] * 4
        before = len(ctx.fails)
        replay_lin(rec, p, ctx, np)
        if len(ctx.fails) == before:
            raise core.Machinery('selftest: a scaled exact operator was not noticed')
        del ctx.fails[before:]
        ctx.notes.append('selftest: corrupted exact operator rejected')
    return progs, recs


def run(ctx, replay_path=None, selftest=False, replay=None):
    import numpy as np
    replay_path = replay_path or replay
    for m in ('Rat', 'Adjoint'):
        core.sany(m)
    if replay_path:
        rec = json.load(open(replay_path))['record']
        small = [p for p in programs('quick') if p['kind'] == 'babinet' and tuple(p['params']['fpm']) == tuple(p['shape']) and p['params']['maskkind'] == 'complex'][:1]
        c, d = cfg_lin(small, False, variant='no-conj')
        ctx.tlc('Adjoint', c, defs=d, name='replay-smoke', emit=False, must_hold=False, coverage=False)
        if 'lin' in rec:
            by_name = {p['name']: p for p in programs('thorough')}
            by_name.update({p['name']: p for p in programs('quick')})
            replay_lin(rec['lin'], by_name[rec['program']], ctx, np)
        return
    progs, recs = run_linear(ctx, np, selftest)
    ctx.sample({'program': progs[0]['name'], 'kind': progs[0]['kind'], 'shape': progs[0]['shape']})
    ctx.bounds = {'linear programs': len(progs)}
    ctx.assumptions += ['linear routines are examined on shapes 2..5 per axis with Q, shifts and masks from small rational / root-of-unity menus; the operator matrices are exact in Z[zeta_M]']

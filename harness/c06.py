"""C06 -- every backprop routine returns the true gradient of its forward routine.
Specs: Adjoint.tla (reverse-mode tape machine over exact Z[zeta_M] arrays: linear routines; the law B = A^H is checked by TLC
on every program) and Grad.tla (non-linear nodes in exact rational arithmetic with dual numbers: activations, softmax family
with its remembered forward, encoders, cost functions, intensity, phase).  Binding: the exact operator matrices A (forward)
and B (adjoint) that the tape machine ends with are replayed into the real forward and *_backprop routines; the exact values
and gradients of the non-linear nodes are replayed into prysm.x.optym and Wavefront."""
import cmath
import itertools
import json
import math
from fractions import Fraction

from . import core, modq

PROP = 'C06'


# ---------------------------------------------------------------------------------------------- building programs
def lcm(*xs):
    out = 1
    for x in xs:
        out = out * x // math.gcd(out, x)
    return out


class Axis:
    def __init__(self, n, m, q, s=(0, 1)):
        self.n, self.m, self.q, self.s = n, m, q, s

    @property
    def L(self):
        return self.n * self.q[0] * self.s[1] * self.s[1]

    @property
    def normsq(self):
        return Fraction(self.q[1], self.n * self.q[0])

    def tla(self):
        return '[n |-> %d, m |-> %d, q |-> <<%d, %d>>, s |-> <<%d, %d>>]' % (self.n, self.m, self.q[0], self.q[1], self.s[0], self.s[1])


def rat(f):
    f = Fraction(f)
    return '<<%d, %d>>' % (f.numerator, f.denominator)


def mat(rows):
    return '<<%s>>' % ', '.join('<<%s>>' % ', '.join(str(int(v)) for v in r) for r in rows)


def dft_stage(row, col, direction, rational_norm=False):
    nsq = row.normsq * col.normsq
    if rational_norm:
        sc = Fraction(math.isqrt(nsq.numerator), math.isqrt(nsq.denominator))
        assert sc * sc == nsq, nsq
        left = Fraction(1)
    else:
        sc, left = Fraction(1), nsq
    return dict(op='dft', row=row, col=col, dir=direction, sc=sc, c2left=left,
                tla='[op |-> "dft", dir |-> %d, row |-> %s, col |-> %s, sc |-> %s, c2left |-> %s]' % (direction, row.tla(), col.tla(), rat(sc), rat(left)))


def mask_stage(z, e):
    return dict(op='mask', z=z, e=e, tla='[op |-> "mask", z |-> %s, e |-> %s]' % (mat(z), mat(e)))


def int_stage(L, R):
    return dict(op='int', tla='[op |-> "int", L |-> %s, R |-> %s]' % (mat(L), mat(R)))


def modes_stage(modes):
    return dict(op='modes', modes=modes, tla='[op |-> "modes", modes |-> <<%s>>]' % ', '.join(mat(m) for m in modes))


def skip_stage(body):
    return dict(op='skipminus', body=body, tla='[op |-> "skipminus", body |-> <<%s>>]' % ', '.join(b['tla'] for b in body))


def lattice(n, nact, sep):
    neg = n // 2 + (-nact // 2) * sep + (sep // 2 if nact % 2 == 0 else 0)
    pos = n // 2 + (nact // 2) * sep + (sep // 2 if nact % 2 == 0 else 0)
    return list(range(neg, pos, sep))


def dm_stage(n, ifn, nact, sep, shift, gain=2):
    iy = ix = lattice(n, nact, sep)
    seq = lambda xs: '<<%s>>' % ', '.join(map(str, xs))
    return dict(op='dmconv', tla='[op |-> "dmconv", n |-> <<%d, %d>>, ifn |-> %s, iy |-> %s, ix |-> %s, nact |-> %d, sep |-> %d, shift |-> <<%d, %d>>, gain |-> %d]'
                % (n, n, mat(ifn), seq(iy), seq(ix), nact, sep, shift[0], shift[1], gain))


def padcrop_stage(inn, out):
    return dict(op='padcrop', tla='[op |-> "padcrop", inn |-> <<%d, %d>>, out |-> <<%d, %d>>]' % (inn[0], inn[1], out[0], out[1]))


def scale_stage(sc):
    return dict(op='scale', tla='[op |-> "scale", sc |-> %s]' % rat(sc))


def real_stage():
    return dict(op='real', tla='[op |-> "real"]')


def moduli(stages):
    out = []
    for st in stages:
        if st['op'] == 'dft':
            out += [st['row'].L, st['col'].L]
        elif st['op'] == 'skipminus':
            out += moduli(st['body'])
    return out


def c2left(stages):
    out = Fraction(1)
    for st in stages:
        if st['op'] == 'dft':
            out *= st['c2left']
    return out


def program(name, kind, shape, stages, mask_mod=1, **params):
    M = lcm(mask_mod, *moduli(stages))
    real = ', real |-> TRUE' if kind == 'dm' else ''
    return dict(name=name, kind=kind, shape=shape, stages=stages, mod=M, params=params, c2left=c2left(stages),
                tla='[name |-> "%s", mod |-> %d, shape |-> <<%d, %d>>, stages |-> <<%s>>%s]' % (name, M, shape[0], shape[1], ', '.join(s['tla'] for s in stages), real))


def ident(n):
    return [[1 if i == j else 0 for j in range(n)] for i in range(n)]


def diffmat(n):
    """forward difference on the interior: row l (1 <= l <= n-2, 0-based): out[l] = x[l+1] - x[l]; first and last rows zero."""
    D = [[0] * n for _ in range(n)]
    for l in range(1, n - 1):
        D[l][l + 1] = 1
        D[l][l] = -1
    return D


def mask_for(shape, M, kind):
    r, c = shape
    if kind == 'binary':
        return [[1 if (a + 2 * b) % 3 else 0 for b in range(c)] for a in range(r)], [[0] * c for _ in range(r)]
    if kind == 'real':
        return [[((2 * a + b) % 4) - 1 for b in range(c)] for a in range(r)], [[0] * c for _ in range(r)]
    # complex: z * zeta_M^e with e != 0 somewhere
    return [[1 + ((a + b) % 2) for b in range(c)] for a in range(r)], [[(3 * a + 5 * b + 1) % M for b in range(c)] for a in range(r)]


def programs(tier):
    out = []
    quick = tier == 'quick'
    # 1-2: matrix DFT forward / inverse
    shapes = [((2, 3), (3, 2)), ((3, 3), (4, 4)), ((4, 2), (2, 4)), ((3, 4), (3, 4))]
    qs = [((1, 1), (1, 1)), ((2, 1), (3, 2)), ((3, 2), (2, 1))]
    shifts = [((0, 1), (0, 1)), ((1, 1), (0, 1)), ((1, 2), (-1, 1))]
    n = 0
    for (sin, sout), (qr, qc), (sx, sy), d in itertools.product(shapes, qs, shifts, (1, -1)):
        n += 1
        if quick and n % 3 != 1:
            continue
        row, col = Axis(sin[0], sout[0], qr, sy), Axis(sin[1], sout[1], qc, sx)
        out.append(program('mdft%d' % n, 'dft2' if d == 1 else 'idft2', sin, [dft_stage(row, col, d)], qr=qr, qc=qc, sx=sx, sy=sy, out=sout))
    # 3-4: fixed-sampling focus / unfocus (Q derived from the sampling: n Q = lambda z / (dx dx') = NQ on both axes)
    n = 0
    for (sin, sout), nq, (sx, sy), d in itertools.product(shapes, ((2, 1), (3, 1), (5, 2)), shifts[:2], (1, -1)):
        n += 1
        if quick and n % 3 != 1:
            continue
        row, col = Axis(sin[0], sout[0], (nq[0], nq[1] * sin[0]), sy), Axis(sin[1], sout[1], (nq[0], nq[1] * sin[1]), sx)
        out.append(program('fixed%d' % n, 'focus_fixed' if d == 1 else 'unfocus_fixed', sin, [dft_stage(row, col, d, rational_norm=True)], nq=nq, sx=sx, sy=sy, out=sout))
    # 5-6: to the focal-plane mask and back; Babinet with a Lyot stop
    n = 0
    for (pupil, fpm), nq, mk, lk in itertools.product([((2, 2), (2, 2)), ((3, 3), (3, 3)), ((3, 3), (2, 2)), ((2, 3), (3, 2)), ((2, 2), (4, 4))],
                                                      ((2, 1), (3, 1)), ('binary', 'real', 'complex'), ('none', 'real', 'complex')):
        n += 1
        if quick and n % 3 != 1:
            continue
        f_row, f_col = Axis(pupil[0], fpm[0], (nq[0], nq[1] * pupil[0])), Axis(pupil[1], fpm[1], (nq[0], nq[1] * pupil[1]))
        u_row, u_col = Axis(fpm[0], pupil[0], (nq[0], nq[1] * fpm[0])), Axis(fpm[1], pupil[1], (nq[0], nq[1] * fpm[1]))
        Mk = lcm(f_row.L, f_col.L, u_row.L, u_col.L, 4)
        z, e = mask_for(fpm, Mk, mk)
        body = [dft_stage(f_row, f_col, 1, True), mask_stage(z, e), dft_stage(u_row, u_col, -1, True)]
        if lk == 'none':
            out.append(program('fpm%d' % n, 'to_fpm_and_back', pupil, body, mask_mod=Mk, nq=nq, fpm=fpm, mask=(z, e), maskkind=mk))
        stages = [skip_stage(body)]
        lz = le = None
        if lk != 'none':
            lz, le = mask_for(pupil, Mk, lk)
            stages.append(mask_stage(lz, le))
        out.append(program('babinet%d' % n, 'babinet', pupil, stages, mask_mod=Mk, nq=nq, fpm=fpm, mask=(z, e), lyot=None if lz is None else (lz, le), maskkind=mk, lyotkind=lk))
    # 5b: the same trip with a shifted focal plane (shift in focal-plane samples, both legs)
    n = 0
    for (pupil, fpm), nq, (sx, sy), mk in itertools.product([((2, 2), (2, 2)), ((3, 3), (2, 2)), ((2, 3), (3, 2))], ((2, 1),), (((1, 1), (0, 1)), ((1, 2), (-1, 1))), ('real', 'complex')):
        n += 1
        if quick and n % 2 != 1:
            continue
        f_row, f_col = Axis(pupil[0], fpm[0], (nq[0], nq[1] * pupil[0]), sy), Axis(pupil[1], fpm[1], (nq[0], nq[1] * pupil[1]), sx)
        u_row, u_col = Axis(fpm[0], pupil[0], (nq[0], nq[1] * fpm[0]), sy), Axis(fpm[1], pupil[1], (nq[0], nq[1] * fpm[1]), sx)
        Mk = lcm(f_row.L, f_col.L, u_row.L, u_col.L, 4)
        z, e = mask_for(fpm, Mk, mk)
        body = [dft_stage(f_row, f_col, 1, True), mask_stage(z, e), dft_stage(u_row, u_col, -1, True)]
        out.append(program('fpmshift%d' % n, 'to_fpm_and_back', pupil, body, mask_mod=Mk, nq=nq, fpm=fpm, mask=(z, e), maskkind=mk, sx=sx, sy=sy))
    # 7: modal sums
    for K, (r, c) in ((1, (2, 2)), (3, (2, 3)), (4, (3, 2))):
        modes = [[[((k * 7 + a * 3 + b * 5) % 9) - 4 for b in range(c)] for a in range(r)] for k in range(K)]
        out.append(program('modes%dx%dx%d' % (K, r, c), 'modes', (K, 1), [modes_stage(modes)], modes=modes))
    # 8: finite differences
    for r, c in ((3, 3), (4, 4), (3, 5), (5, 3), (5, 5)):
        out.append(program('gradx%dx%d' % (r, c), 'gradx', (r, c), [int_stage(ident(r), diffmat(c))]))
        out.append(program('grady%dx%d' % (r, c), 'grady', (r, c), [int_stage(diffmat(r), ident(c))]))
    # 9: deformable mirror: gather, circular convolution with the influence function, integer shift, gain, resample, pad / crop
    n = 0
    for (nn, nact, sep), shift, nout, ups in itertools.product(((6, 2, 2), (7, 2, 2), (8, 3, 2), (4, 2, 1), (5, 2, 1)), ((0, 0), (1, 0), (-1, 2)), (0, 3, -2), (1, 2)):
        n += 1
        if ups == 1 and (nn < 6 or (quick and n % 5 not in (1, 3))):
            continue
        if ups == 2 and (nn > 5 or (quick and shift == (1, 0))):
            continue
        ifn = [[((3 * a + 5 * b + a * b) % 7) - 2 for b in range(nn)] for a in range(nn)]
        stages = [dm_stage(nn, ifn, nact, sep, shift)]
        inter = nn
        if ups != 1:
            inter = nn * ups
            stages += [dft_stage(Axis(nn, nn, (1, 1)), Axis(nn, nn, (1, 1)), 1, True), dft_stage(Axis(nn, inter, (ups, 1)), Axis(nn, inter, (ups, 1)), -1, True),
                       scale_stage(ups * ups), real_stage()]
        out_n = inter + nout
        if nout:
            stages.append(padcrop_stage((inter, inter), (out_n, out_n)))
        out.append(program('dm%d' % n, 'dm', (nact, nact), stages, n=nn, ifn=ifn, nact=nact, sep=sep, shift=shift, nout=out_n, upsample=ups))
    return out


def cfg_lin(progs, emit, variant='design'):
    laws = ('TapeDiscipline', 'ShapeLaw', 'AdjointLaw', 'NormLaw', 'Nonzero', 'LatticeLaw')
    c = 'INIT Init\nNEXT Next\nCHECK_DEADLOCK FALSE\nCONSTANTS\n Variant = "%s"\n EmitOn = %s\n' % (variant, 'TRUE' if emit else 'FALSE')
    c += 'INVARIANT Emit\n' if emit else ''.join('INVARIANT %s\n' % i for i in laws)
    return c, dict(Programs='<<%s>>' % ', '.join(p['tla'] for p in progs))


# ---------------------------------------------------------------------------------------------- replay of linear programs
def cv(v, M):
    return sum(c * cmath.exp(2j * math.pi * e / M) for e, c in enumerate(v) if c)


def operator(np, cols, M):
    """columns (one array per basis vector) -> dense matrix (out_flat x in_flat)"""
    mats = []
    for col in cols:
        mats.append(np.array([[cv(x, M) for x in row] for row in col['v']]).ravel() / col['den'])
    return np.array(mats).T


def frac(t):
    return t[0] / t[1]


def mask_array(np, ze, M):
    z, e = ze
    return np.array([[zz * cmath.exp(2j * math.pi * ee / M) for zz, ee in zip(zr, er)] for zr, er in zip(z, e)])


def realish(np, a):
    return a.real.copy() if core.maxabs(a.imag) < 1e-14 else a


def impl_pair(np, p):
    """returns (forward(x), backprop(ybar), output shape) closures over the real routines"""
    from prysm.fttools import mdft
    from prysm import propagation as PR
    from prysm.polynomials import sum_of_2d_modes, sum_of_2d_modes_backprop
    from prysm.x.optym.operators import SpatialGradient2D
    k, q = p['kind'], p['params']
    shape = p['shape']
    if k in ('dft2', 'idft2'):
        Q = (frac(q['qr']), frac(q['qc']))
        shift = (frac(q['sx']), frac(q['sy']))
        if k == 'dft2':
            return (lambda x: mdft.dft2(x, Q, q['out'], shift=shift)), (lambda yb: mdft.dft2_backprop(yb, Q, shape, shift=shift)), q['out']
        return (lambda x: mdft.idft2(x, Q, q['out'], shift=shift)), (lambda yb: mdft.idft2_backprop(yb, Q, shape, shift=shift)), q['out']
    wvl, dx, fdx = 1.0, 0.5, 2.0
    if k in ('focus_fixed', 'unfocus_fixed'):
        efl = frac(q['nq']) * dx * fdx
        sx, sy = frac(q['sx']), frac(q['sy'])
        if k == 'focus_fixed':
            shift = (sx * fdx, sy * fdx)          # physical units of the output plane
            fwd = lambda x: PR.Wavefront(x, wvl, dx, 'pupil').focus_fixed_sampling(efl, fdx, q['out'], shift=shift).data
            bwd = lambda yb: PR.Wavefront(yb, wvl, fdx, 'psf').focus_fixed_sampling_backprop(efl, dx, shape, shift=shift).data
            return fwd, bwd, q['out']
        shift = (sx * dx, sy * dx)
        fwd = lambda x: PR.Wavefront(x, wvl, fdx, 'psf').unfocus_fixed_sampling(efl, dx, q['out'], shift=shift).data
        bwd = lambda yb: PR.unfocus_fixed_sampling_backprop(yb, fdx, efl, wvl, dx, shape, shift=shift)
        return fwd, bwd, q['out']
    if k in ('to_fpm_and_back', 'babinet'):
        efl = frac(q['nq']) * dx * fdx
        m = mask_array(np, q['mask'], p['mod'])
        if q['maskkind'] != 'complex':
            m = m.real.copy()
        if k == 'to_fpm_and_back':
            shift = (frac(q.get('sx', (0, 1))) * fdx, frac(q.get('sy', (0, 1))) * fdx)
            fwd = lambda x: PR.Wavefront(x, wvl, dx, 'pupil').to_fpm_and_back(efl, m, fdx, shift=shift).data
            bwd = lambda yb: PR.Wavefront(yb, wvl, dx, 'pupil').to_fpm_and_back_backprop(efl, m, fdx, shift=shift).data
            return fwd, bwd, shape
        lyot = None
        if q['lyot'] is not None:
            lyot = mask_array(np, q['lyot'], p['mod'])
            if q['lyotkind'] != 'complex':
                lyot = lyot.real.copy()
        fpm = 1 - m                                # the routine forms 1 - fpm itself
        fwd = lambda x: PR.Wavefront(x, wvl, dx, 'pupil').babinet(efl, lyot, fpm, fdx).data
        bwd = lambda yb: PR.Wavefront(yb, wvl, dx, 'pupil').babinet_backprop(efl, lyot, fpm, fdx).data
        return fwd, bwd, shape
    if k == 'modes':
        modes = np.array(q['modes'], dtype=float)
        return (lambda w: sum_of_2d_modes(modes, w.ravel().real)), (lambda yb: np.asarray(sum_of_2d_modes_backprop(modes, yb)).reshape(-1, 1)), modes.shape[1:]
    if k == 'dm':
        from prysm.x.dm import DM
        dm = DM(np.array(q['ifn'], dtype=float), q['nout'], Nact=q['nact'], sep=q['sep'], shift=tuple(q['shift']), upsample=q['upsample'])

        def fwd(a):
            dm.update(a.real.copy())
            return dm.render(wfe=True)
        return fwd, (lambda yb: dm.render_backprop(yb.real.copy(), wfe=True)), (q['nout'], q['nout'])
    g = SpatialGradient2D()
    if k == 'gradx':
        return g.forward_x, g.backprop_x, shape
    return g.forward_y, g.backprop_y, shape


def replay_lin(rec, p, ctx, np):
    M = rec['mod']
    scale = math.sqrt(float(p['c2left']))
    A = operator(np, rec['A'], M) * scale
    B = operator(np, rec['B'], M) * scale
    k = p['kind']
    shape = tuple(p['shape'])
    tag = k
    if k in ('to_fpm_and_back', 'babinet'):
        q = p['params']
        tag += ':%s-mask:%s%s' % (q['maskkind'], 'same-size' if tuple(q['fpm']) == shape else 'mask!=pupil', ':shifted' if q.get('sx', (0, 1))[0] or q.get('sy', (0, 1))[0] else '')
        if k == 'babinet':
            tag += ':lyot-%s' % q['lyotkind']
    elif k in ('dft2', 'idft2', 'focus_fixed', 'unfocus_fixed'):
        q = p['params']
        tag += ':%s:%s' % ('square' if shape[0] == shape[1] and q['out'][0] == q['out'][1] else 'non-square', 'shifted' if (q['sx'][0] or q['sy'][0]) else 'centred')
    elif k in ('gradx', 'grady'):
        tag += ':%s' % ('square' if shape[0] == shape[1] else 'non-square')
    elif k == 'dm':
        q = p['params']
        tag += ':%s:%s:%s' % ('shifted' if tuple(q['shift']) != (0, 0) else 'unshifted', 'pad' if q['nout'] > q['n'] * q['upsample'] else 'crop' if q['nout'] < q['n'] * q['upsample'] else 'same', 'upsample%d' % q['upsample'])
    desc = '%s %s params=%s' % (p['name'], shape, {a: b for a, b in p['params'].items() if a not in ('mask', 'lyot', 'modes')})
    ctx.replayed(1, key=p['name'])
    if k == 'dm':
        A, B = A.real.copy(), B.real.copy()
    if core.maxabs(B - A.conj().T) > 1e-9:
        raise core.Machinery('emitted B is not A^H for %s' % p['name'])
    rng = np.random.RandomState(ctx.seed + len(p['name']))
    real_in = k in ('modes', 'gradx', 'grady', 'dm')
    try:
        fwd, bwd, oshape = impl_pair(np, p)
        for trial in range(2):
            x = rng.normal(size=shape) + (0 if real_in else 1j * rng.normal(size=shape))
            want = (A @ x.ravel()).reshape(oshape)
            got = np.asarray(fwd(x.copy()))
            if got.shape != tuple(oshape) or core.maxabs(got - want) > 1e-9 * max(1.0, float(np.abs(want).max())):
                ctx.fail('Lin:forward:' + tag, '%s: forward differs from the exact operator: shape %s, max |diff| %.3g' % (desc, got.shape, core.maxabs(got - want) if got.shape == tuple(oshape) else float('nan')), {'program': p['name'], 'lin': rec})
                return
            yb = rng.normal(size=oshape) + (0 if k in ('gradx', 'grady', 'dm') else 1j * rng.normal(size=oshape))
            wantb = (B @ yb.ravel()).reshape(shape)
            gotb = np.asarray(bwd(yb.copy()))
            if gotb.shape != shape:
                ctx.fail('Lin:backprop-shape:' + tag, '%s: backprop returned shape %s, want %s' % (desc, gotb.shape, shape), {'program': p['name'], 'lin': rec})
                return
            if k == 'modes':
                wantb = wantb  # complex upstream gradient: the adjoint of a real operator acts on both parts
            err = core.maxabs(gotb - wantb)
            if err > 1e-9 * max(1.0, float(np.abs(wantb).max())):
                lhs = np.vdot(yb.ravel(), got.ravel() if False else (A @ x.ravel()))
                rhs = np.vdot(gotb.ravel(), x.ravel())
                how = 'negated' if core.maxabs(gotb + wantb) < 1e-9 else ('unconjugated mask' if False else 'differs')
                ctx.fail('Lin:backprop:%s:%s' % (how, tag), '%s: backprop is not the conjugate transpose of forward: max |diff| %.3g; <y, A x> = %s but <backprop(y), x> = %s'
                         % (desc, err, complex(lhs), complex(rhs)), {'program': p['name'], 'lin': rec})
                return
    except Exception as ex:
        import traceback
        if not any('/prysm/' in f.filename for f in traceback.extract_tb(ex.__traceback__)):
            raise
        ctx.fail('Lin:raised:' + tag, '%s: %s: %s' % (desc, type(ex).__name__, str(ex)[:300]), {'program': p['name'], 'lin': rec})


def chunks(xs, n):
    """n interleaved parts (expensive programs sit next to each other in the list)"""
    return [xs[i::n] for i in range(n) if xs[i::n]]


def run_linear(ctx, np, selftest):
    progs = programs(ctx.tier)
    by_name = {p['name']: p for p in progs}
    # laws on 16 workers, programs spread over a few runs (a run explores its programs' tape machines exhaustively)
    waits = []
    for n, part in enumerate(chunks(progs, 4)):
        c, d = cfg_lin(part, False)
        waits.append(lambda c=c, d=d, n=n: ctx.tlc('Adjoint', c, defs=d, name='tape-laws-%d' % n, emit=False, workers=4, coverage=(n == 0), require_actions=('Forward', 'Turn', 'Backprop', 'Finish') if n == 0 else (), timeout=3000))
    for r in core.parallel(waits, max_workers=4):
        pass
    # (the vacuity guards use the same two programs in every tier)
    small = [p for p in programs('quick') if p['kind'] == 'babinet' and tuple(p['params']['fpm']) == tuple(p['shape']) and p['params']['maskkind'] == 'complex'][:2]
    for variant in ('no-conj', 'negated', 'forward-order'):
        c, d = cfg_lin(small, False, variant=variant)
        ctx.tlc('Adjoint', c, defs=d, name='pinned-' + variant, emit=False, must_hold=False, count=False, coverage=False)
    thunks = []
    for n, part in enumerate(chunks(progs, 14)):
        c, d = cfg_lin(part, True)
        thunks.append(lambda c=c, d=d, n=n: ctx.tlc('Adjoint', c, defs=d, name='tape-emit-%d' % n, coverage=False, count=False, timeout=3000))
    recs = []
    for part in core.parallel(thunks):
        recs += part.records
    if sorted(r['name'] for r in recs) != sorted(by_name):
        raise core.Machinery('tape machine emitted %d operators for %d programs' % (len(recs), len(progs)))
    for rec in recs:
        replay_lin(rec, by_name[rec['name']], ctx, np)
    if selftest:
        rec = json.loads(json.dumps(next(r for r in recs if by_name[r['name']]['kind'] == 'dft2')))
        p = dict(by_name[rec['name']])
        p['c2left'] = p['c2left'] * 4
        before = len(ctx.fails)
        replay_lin(rec, p, ctx, np)
        if len(ctx.fails) == before:
            raise core.Machinery('selftest: a scaled exact operator was not noticed')
        del ctx.fails[before:]
        ctx.notes.append('selftest: corrupted exact operator rejected')
    return progs, recs


# ---------------------------------------------------------------------------------------------- non-linear nodes (Grad.tla)
def R(f):
    f = Fraction(f)
    return '<<%d, %d>>' % (f.numerator, f.denominator)


def RS(fs):
    return '<<%s>>' % ', '.join(R(f) for f in fs)


def F(*a):
    return Fraction(*a)


def act_cases(tier):
    out = []
    us = {'sigmoid': (F(1, 3), F(1), F(5, 2), F(7)), 'tanh': (F(1, 3), F(1), F(5, 2), F(7)), 'softplus': (F(1, 3), F(1), F(5, 2), F(7)), 'arctan': (F(-2), F(0), F(1, 3), F(3, 2))}
    n = 0
    for f, a, x0, y0 in itertools.product(('sigmoid', 'tanh', 'softplus', 'arctan'), (F(1), F(2), F(1, 2), F(-3, 2)), (F(0), F(1, 3)), (F(0), F(-2))):
        for u in us[f]:
            n += 1
            if tier == 'quick' and n % 2:
                continue
            out.append('[f |-> "%s", a |-> %s, x0 |-> %s, y0 |-> %s, u |-> %s, pw |-> 1]' % (f, R(a), R(x0), R(y0), R(u)))
    # deep saturation on both sides: exp(a x') = 100^(+-8) (arctan: x' = 100^(+-2))
    for f, a, base in itertools.product(('sigmoid', 'tanh', 'softplus', 'arctan'), (F(1), F(2), F(1, 2), F(-3, 2)), (F(100), F(1, 100))):
        out.append('[f |-> "%s", a |-> %s, x0 |-> %s, y0 |-> %s, u |-> %s, pw |-> %d]' % (f, R(a), R(F(1, 3)), R(F(-2)), R(base), 2 if f == 'arctan' else 8))
    return out


def soft_cases(tier):
    rows = [[(F(1), F(2), F(3)), (F(1, 2), F(4), F(1))], [(F(2), F(2)), (F(1, 3), F(5))], [(F(1), F(1, 4), F(3), F(2)), (F(5), F(1), F(1), F(1, 2))]]
    grads = {2: (F(1), F(-2)), 3: (F(1), F(0), F(-3, 2)), 4: (F(2), F(-1), F(1, 2), F(0))}
    levels = {2: (F(0), F(1)), 3: (F(-1), F(1, 2), F(3)), 4: (F(0), F(1), F(2), F(3))}
    out = []
    for inputs in rows:
        n = len(inputs[0])
        out.append('[kind |-> "softmax", tau |-> <<1, 1>>, levels |-> %s, inputs |-> <<%s>>, grad |-> %s]' % (RS(levels[n]), ', '.join(RS(r) for r in inputs), RS(grads[n])))
        for tau in ((F(1), F(1, 2), F(3)) if tier != 'quick' else (F(1, 2), F(3))):
            out.append('[kind |-> "gumbel", tau |-> %s, levels |-> %s, inputs |-> <<%s>>, grad |-> %s]' % (R(tau), RS(levels[n]), ', '.join(RS(r) for r in inputs), RS(grads[n])))
            out.append('[kind |-> "encoder", tau |-> %s, levels |-> %s, inputs |-> <<%s>>, grad |-> %s]' % (R(tau), RS(levels[n]), ', '.join(RS(r) for r in inputs), RS((F(-3, 2),))))
    return out


def cost_cases(tier):
    out = []
    data = [((F(1), F(3), F(2), F(5)), (F(2), F(5), F(4), F(9))), ((F(1), F(4), F(2), F(2), F(7), F(3)), (F(3), F(3), F(1), F(4), F(8), F(2))), ((F(1, 2), F(3), F(2), F(5, 2)), (F(1), F(2), F(2), F(4)))]
    masks = [(), (1, 2, 4), (2, 3, 4)]
    for (m, d), mask, kind in itertools.product(data, masks, ('mse', 'bgi')):
        mk = tuple(i for i in mask if i <= len(m))
        if len(m) == 6 and mask:
            mk = mk + (6,)
        out.append('[kind |-> "%s", m |-> %s, d |-> %s, mask |-> {%s}]' % (kind, RS(m), RS(d), ', '.join(map(str, mk))))
    ys = [((F(1, 2), F(1, 3), F(3, 4), F(1, 5)), (F(1), F(0), F(1), F(0))), ((F(2, 3), F(1, 4), F(1, 2), F(9, 10)), (F(1, 2), F(1), F(0), F(1, 3)))]
    for (y, yh), mask in itertools.product(ys, masks):
        out.append('[kind |-> "nll", m |-> %s, d |-> %s, mask |-> {%s}]' % (RS(y), RS(yh), ', '.join(map(str, mask))))
    return out


def field_cases(tier):
    out = []
    es = [((F(1), F(2)), (F(-3), F(1, 2)), (F(0), F(1)), (F(2), F(0))), ((F(1, 2), F(-1, 3)), (F(3), F(3)), (F(-1), F(0)), (F(0), F(0)))]
    for e in es:
        out.append('[kind |-> "intensity", e |-> <<%s>>, bar |-> %s, amp |-> << >>, k |-> <<1, 1>>]' % (', '.join('<<%s, %s>>' % (R(a), R(b)) for a, b in e), RS((F(1), F(-2), F(1, 2), F(3)))))
    ph = [((F(3, 5), F(4, 5)), (F(1), F(0)), (F(-5, 13), F(12, 13)), (F(0), F(-1))), ((F(8, 17), F(-15, 17)), (F(-1), F(0)), (F(4, 5), F(3, 5)), (F(7, 25), F(24, 25)))]
    for e in ph:
        out.append('[kind |-> "phase", e |-> <<%s>>, bar |-> <<%s>>, amp |-> %s, k |-> <<1, 1>>]' % (
            ', '.join('<<%s, %s>>' % (R(a), R(b)) for a, b in e), ', '.join('<<%s, %s>>' % (R(a), R(b)) for a, b in ((F(1), F(2)), (F(-1, 2), F(3)), (F(0), F(-1)), (F(2), F(2)))), RS((F(1), F(2), F(1, 2), F(3)))))
    return out


GRAD_LAWS = {'act': ('ActLaw',), 'softmax': ('HistoryLaw', 'SumsToOne'), 'cost': ('CostLaw',), 'field': ('IntensityLaw', 'PhaseLaw')}
GRAD_CASES = {'act': act_cases, 'softmax': soft_cases, 'cost': cost_cases, 'field': field_cases}


def cfg_grad(mode, cases, emit, variant='design'):
    c = 'INIT Init\nNEXT Next\nCHECK_DEADLOCK FALSE\nCONSTANTS\n Mode = "%s"\n Variant = "%s"\n EmitOn = %s\n' % (mode, variant, 'TRUE' if emit else 'FALSE')
    c += 'INVARIANT Emit\n' if emit else ''.join('INVARIANT %s\n' % i for i in GRAD_LAWS[mode])
    return c, dict(Cases='<<%s>>' % ', '.join(cases))


def fr(res):
    return float(modq.to_fraction(res))


def fq(t):
    return t[0] / t[1]


class StubRng:
    """stands in for numpy's Generator inside GumbelSoftmax: returns prescribed uniform samples"""
    def __init__(self, np):
        self.np = np

    def uniform(self, low=0, high=1, size=None):
        n = int(self.np.prod(size))
        return (0.15 + 0.7 * ((self.np.arange(n) * 0.37) % 1.0)).reshape(size)


def replay_act(rec, ctx, np):
    from prysm.x.optym import activation as ACT
    cs = rec['cs']
    f = cs['f']
    a, x0, y0, u = fq(cs['a']), fq(cs['x0']), fq(cs['y0']), fq(cs['u'])
    x = x0 + (u ** cs['pw'] if f == 'arctan' else cs['pw'] * math.log(u) / (2 * a if f == 'tanh' else a))
    fw = rec['fwd']
    want = fr(fw['add']) + (0.0 if fw['tag'] == 'rat' else math.log(fr(fw['arg'])) if fw['tag'] == 'ln' else math.atan(fr(fw['arg'])))
    wantb = fr(rec['back'])
    node = {'sigmoid': ACT.Sigmoid, 'tanh': ACT.Tanh, 'softplus': ACT.Softplus, 'arctan': ACT.Arctan}[f](a=a, x0=x0, y0=y0)
    desc = '%s(a=%g, x0=%g, y0=%g) at x=%.6g' % (f, a, x0, y0, x)
    ctx.replayed(1, key=json.dumps(cs))
    for shape in ((), (2,), (2, 3)):
        xin = np.full(shape, x)
        keep = xin.copy()
        got, gotb = np.asarray(node.forward(xin)), None
        if core.maxabs(got - want) > 1e-10 * max(1, abs(want)):
            ctx.fail('Node:%s:forward' % f, '%s: forward %r, exact %r' % (desc, got.ravel()[0].item(), want), rec)
            return
        gotb = np.asarray(node.backprop(xin))
        if core.maxabs(gotb - wantb) > 1e-10 * max(1, abs(wantb)):
            ctx.fail('Node:%s:backprop' % f, '%s: backprop(x) %r, exact derivative %r' % (desc, gotb.ravel()[0].item(), wantb), rec)
            return
        if shape and not np.array_equal(xin, keep):
            ctx.fail('Node:%s:mutates-input' % f, '%s: the input array was modified in place' % desc, rec)
            return


def replay_soft(rec, ctx, np):
    from prysm.x.optym import activation as ACT
    cs = rec['cs']
    kind, tau = cs['kind'], fq(cs['tau'])
    levels = np.array([fq(l) for l in cs['levels']])
    if kind == 'softmax':
        node = ACT.Softmax()
    else:
        g = ACT.GumbelSoftmax(tau=tau)
        g.rng = StubRng(np)
        node = g if kind == 'gumbel' else ACT.DiscreteEncoder(g, levels)
    n = len(cs['inputs'][0])
    stub = StubRng(np)
    ctx.replayed(1, key=json.dumps([cs, rec['hist']]))
    out = None
    for k in rec['hist']:
        v = np.array([[fq(t) for t in cs['inputs'][k - 1]], [fq(t) for t in cs['inputs'][k % len(cs['inputs'])]]])
        x = np.log(v)
        if kind != 'softmax':
            eps = node.eps if kind == 'gumbel' else node.est.eps
            uu = stub.uniform(size=x.shape)
            gg = -np.log(-np.log(uu + eps) + eps)
            x = tau * np.log(v) - gg
        out = np.asarray(node.forward(x))
    want = np.array([fr(t) for t in rec['fwd']])
    desc = '%s tau=%g inputs=%s history=%s' % (kind, tau, [[fq(t) for t in r] for r in cs['inputs']], rec['hist'])
    got0 = out[0] if kind != 'encoder' else out[:1]
    if core.maxabs(np.ravel(got0) - want) > 1e-9:
        ctx.fail('Node:%s:forward' % kind, '%s: forward %s, exact %s' % (desc, np.ravel(got0).tolist(), want.tolist()), rec)
        return
    grad = np.array([fq(t) for t in cs['grad']])
    if kind == 'encoder':
        gb = np.asarray(node.backprop(np.array([grad[0], 0.7])))
    else:
        gb = np.asarray(node.backprop(np.stack([grad, grad[::-1] * 0.3])))
    wantb = np.array([fr(t) for t in rec['back']])
    if gb.shape != (2, n) or core.maxabs(gb[0] - wantb) > 1e-9 * max(1.0, float(np.abs(wantb).max())):
        ctx.fail('Node:%s:backprop' % kind, '%s: backprop %s, exact vector-Jacobian product at the last forward input %s' % (desc, gb[0].tolist() if gb.ndim == 2 else gb.tolist(), wantb.tolist()), rec)
        return
    # the same input as one entry of a (2, 2, n) batch: every leading index is an independent variable
    x3 = np.stack([x, x[::-1]])
    if kind != 'softmax':
        stub3 = StubRng(np)
        g3 = -np.log(-np.log(stub3.uniform(size=x3.shape) + eps) + eps)
        v3 = np.stack([v, v[::-1]])
        x3 = tau * np.log(v3) - g3
        (node if kind == 'gumbel' else node.est).rng = StubRng(np)
    out3 = np.asarray(node.forward(x3))
    got3 = out3[0, 0] if kind != 'encoder' else out3[0, :1]
    if core.maxabs(np.ravel(got3) - want) > 1e-9:
        ctx.fail('Node:%s:forward:3-D' % kind, '%s: forward of a (2, 2, %d) batch gives %s for the first entry, exact %s' % (desc, n, np.ravel(got3).tolist(), want.tolist()), rec)
        return
    if kind == 'encoder':
        gb3 = np.asarray(node.backprop(np.array([[grad[0], 0.7], [0.2, -1.0]])))
    else:
        gb3 = np.asarray(node.backprop(np.stack([np.stack([grad, grad[::-1] * 0.3]), np.stack([grad * 2, grad])])))
    if gb3.shape != (2, 2, n) or core.maxabs(gb3[0, 0] - wantb) > 1e-9 * max(1.0, float(np.abs(wantb).max())):
        ctx.fail('Node:%s:backprop:3-D' % kind, '%s: backprop of a (2, 2, %d) batch gives shape %s, first entry %s, exact %s' % (desc, n, gb3.shape, gb3[0, 0].tolist() if gb3.ndim == 3 else None, wantb.tolist()), rec)


def replay_cost(rec, ctx, np):
    from prysm.x.optym import cost as COST
    cs = rec['cs']
    kind = cs['kind']
    m = np.array([fq(t) for t in cs['m']])
    d = np.array([fq(t) for t in cs['d']])
    shape = (2, len(m) // 2)
    mask = np.array(cs['mask']).reshape(shape) if cs['masked'] else None
    M, D = m.reshape(shape), d.reshape(shape)
    ctx.replayed(1, key=json.dumps(cs))
    fn = {'mse': COST.mean_square_error, 'bgi': COST.bias_and_gain_invariant_error, 'nll': COST.negative_loglikelihood}[kind]
    keepM = M.copy()
    cost, grad = fn(M, D, mask)
    wantg = np.array([fr(t) for t in rec['grad']]).reshape(shape)
    if kind == 'nll':
        wantc = sum(fr(c) * math.log(fr(a)) for terms in rec['nll'] if terms for c, a in terms)
    else:
        wantc = fr(rec['cost'])
    tag = '%s:%s' % (kind, 'masked' if cs['masked'] else 'unmasked')
    desc = '%s M=%s D=%s mask=%s' % (kind, m.tolist(), d.tolist(), None if mask is None else mask.ravel().tolist())
    if abs(float(cost) - wantc) > 1e-10 * max(1.0, abs(wantc)):
        ctx.fail('Cost:%s:value' % tag, '%s: cost %r, exact %r' % (desc, float(cost), wantc), rec)
    grad = np.asarray(grad)
    if grad.shape != shape or core.maxabs(grad - wantg) > 1e-10 * max(1.0, float(np.abs(wantg).max())):
        ctx.fail('Cost:%s:gradient' % tag, '%s: gradient %s, exact d cost / d M %s' % (desc, grad.ravel().tolist(), wantg.ravel().tolist()), rec)
    if not np.array_equal(M, keepM):
        ctx.fail('Cost:%s:mutates-input' % tag, '%s: the model array was modified' % desc, rec)


def replay_field(rec, ctx, np):
    from prysm.propagation import Wavefront
    cs = rec['cs']
    e = np.array([complex(fq(a), fq(b)) for a, b in cs['e']]).reshape(2, 2)
    ctx.replayed(1, key=json.dumps(cs))
    if cs['kind'] == 'intensity':
        ibar = np.array([fq(t) for t in cs['bar']]).reshape(2, 2)
        wf = Wavefront(e.copy(), 0.6, 1.0)
        inten = np.asarray(wf.intensity.data)
        if core.maxabs(inten - np.abs(e) ** 2) > 1e-12:
            ctx.fail('Field:intensity:forward', 'intensity of %s is %s' % (e.ravel().tolist(), inten.ravel().tolist()), rec)
        gb = np.asarray(wf.intensity_backprop(ibar).data)
        want = np.array([complex(fr(a), fr(b)) for a, b in rec['gbar']]).reshape(2, 2)
        if core.maxabs(gb - want) > 1e-10:
            ctx.fail('Field:intensity:backprop', 'intensity_backprop(%s) at E=%s is %s, exact 2 Ibar E = %s' % (ibar.ravel().tolist(), e.ravel().tolist(), gb.ravel().tolist(), want.ravel().tolist()), rec)
        return
    amp = np.array([fq(t) for t in cs['amp']]).reshape(2, 2)
    pbar = np.array([complex(fq(a), fq(b)) for a, b in cs['bar']]).reshape(2, 2)
    wvl = 0.5
    k = 2 * math.pi / wvl / 1e3
    phi = np.angle(e) / k
    wf = Wavefront.from_amp_and_phase(amp, phi, wvl, 1.0)
    if core.maxabs(np.asarray(wf.data) - amp * e) > 1e-12:
        ctx.fail('Field:phase:forward', 'from_amp_and_phase gives %s, exact %s' % (np.asarray(wf.data).ravel().tolist(), (amp * e).ravel().tolist()), rec)
        return
    got = np.asarray(wf.from_amp_and_phase_backprop_phase(Wavefront(pbar, wvl, 1.0)))
    want = k * np.array([fr(t) for t in rec['phibar']]).reshape(2, 2)
    if core.maxabs(got - want) > 1e-10 * max(1.0, float(np.abs(want).max())):
        ctx.fail('Field:phase:backprop', 'from_amp_and_phase_backprop_phase gives %s, exact k Im(Pbar conj(P)) = %s' % (got.ravel().tolist(), want.ravel().tolist()), rec)


GRAD_REPLAY = {'act': replay_act, 'softmax': replay_soft, 'cost': replay_cost, 'field': replay_field}


def run_grad(ctx, np, selftest):
    cases = {m: GRAD_CASES[m](ctx.tier) for m in GRAD_CASES}
    thunks = []
    for mode in cases:
        c, d = cfg_grad(mode, cases[mode], False)
        thunks.append(lambda c=c, d=d, mode=mode: ctx.tlc('Grad', c, defs=d, name='grad-laws-' + mode, emit=False, workers=4, coverage=(mode == 'softmax'),
                                                           require_actions=('Backprop', 'Next') if mode == 'softmax' else (), timeout=3000))
    core.parallel(thunks, max_workers=4)
    c, d = cfg_grad('cost', [x for x in cases['cost'] if '"bgi"' in x][:3], False, variant='bgi-array-bias')
    ctx.tlc('Grad', c, defs=d, name='pinned-bgi-array-bias', emit=False, must_hold=False, count=False, coverage=False)
    c, d = cfg_grad('softmax', cases['softmax'][:2], False, variant='stale-forward')
    ctx.tlc('Grad', c, defs=d, name='pinned-stale-forward', emit=False, must_hold=False, count=False, coverage=False)
    thunks = []
    for mode in cases:
        for n, part in enumerate(chunks(cases[mode], 3)):
            c, d = cfg_grad(mode, part, True)
            thunks.append(lambda c=c, d=d, mode=mode, n=n: ctx.tlc('Grad', c, defs=d, name='grad-emit-%s-%d' % (mode, n), coverage=False, count=False, timeout=3000))
    recs = []
    for part in core.parallel(thunks):
        recs += part.records
    if len(recs) < sum(len(v) for v in cases.values()):
        raise core.Machinery('Grad emitted %d records for %d cases' % (len(recs), sum(len(v) for v in cases.values())))
    for rec in recs:
        try:
            GRAD_REPLAY[rec['mode']](rec, ctx, np)
        except Exception as ex:
            import traceback
            if not any('/prysm/' in f.filename for f in traceback.extract_tb(ex.__traceback__)):
                raise
            ctx.fail('Node:raised:%s:%s' % (rec['mode'], rec['cs'].get('kind', rec['cs'].get('f'))), '%s: %s' % (type(ex).__name__, str(ex)[:300]), rec)
    if selftest:
        rec = json.loads(json.dumps(next(r for r in recs if r['mode'] == 'act' and r['cs']['f'] == 'tanh')))
        rec['back'] = modq.from_fraction(modq.to_fraction(rec['back']) + Fraction(1, 1000))
        before = len(ctx.fails)
        replay_act(rec, ctx, np)
        if len(ctx.fails) == before:
            raise core.Machinery('selftest: a corrupted exact derivative was not noticed')
        del ctx.fails[before:]
        ctx.notes.append('selftest: corrupted exact derivative rejected')
    return cases, recs


def run(ctx, replay_path=None, selftest=False, replay=None):
    import numpy as np
    replay_path = replay_path or replay
    for m in ('Rat', 'ModQ', 'Adjoint', 'Grad'):
        core.sany(m)
    if replay_path:
        rec = json.load(open(replay_path))['record']
        small = [p for p in programs('quick') if p['kind'] == 'babinet' and tuple(p['params']['fpm']) == tuple(p['shape']) and p['params']['maskkind'] == 'complex'][:1]
        c, d = cfg_lin(small, False, variant='no-conj')
        ctx.tlc('Adjoint', c, defs=d, name='replay-smoke', emit=False, must_hold=False, coverage=False)
        if 'lin' in rec:
            by_name = {p['name']: p for p in programs('thorough')}
            by_name.update({p['name']: p for p in programs('quick')})
            replay_lin(rec['lin'], by_name[rec['program']], ctx, np)
        else:
            GRAD_REPLAY[rec['mode']](rec, ctx, np)
        return
    progs, recs = run_linear(ctx, np, selftest)
    gcases, grecs = run_grad(ctx, np, selftest)
    ctx.sample({'program': progs[0]['name'], 'kind': progs[0]['kind'], 'shape': progs[0]['shape']})
    ctx.bounds = {'linear programs': len(progs), 'node cases': {m: len(v) for m, v in gcases.items()}, 'softmax histories': sum(1 for r in grecs if r['mode'] == 'softmax')}
    ctx.assumptions += ['activation arguments are on the ln-rational family (exp of the argument rational), arctan at rational arguments, phases with rational cos and sin; the Gumbel noise of GumbelSoftmax comes from a stub generator',
                        'linear routines are examined on shapes 2..5 per axis with Q, shifts and masks from small rational / root-of-unity menus; the operator matrices are exact in Z[zeta_M]']

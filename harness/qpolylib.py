"""Forbes polynomials (Qbfs, 2D-Q) by exact Gram-Schmidt: spec/QPoly.tla.  Shared by C07 (values) and C09 (derivatives)."""
import math
from fractions import Fraction

from . import core, dftlib as D, modq, polylib as PL

THETAS = [0.0, 0.4, 1.3, -2.1]


def cfg(ms, maxn):
    c = ('INIT Init\nNEXT Next\nCHECK_DEADLOCK FALSE\nCONSTANTS\n MaxN = %d\n EmitOn = TRUE\n'
         'INVARIANT Orthogonal\nINVARIANT Calibrated\nINVARIANT GammaConsistent\nINVARIANT Emit\n') % maxn
    return c, dict(Ms=D.rng(ms), RadPts=D.tup(PL.RAD))


def run_spec(ctx, tier):
    ms, maxn = (range(0, 4), 5) if tier == 'quick' else (range(0, 6), 9)
    thunks = [(lambda m=m: ctx.tlc('QPoly', *[cfg([m], maxn)[0]], defs=cfg([m], maxn)[1], name='qpoly-m%d' % m, coverage=False, timeout=3000)) for m in ms]
    recs = []
    for r in core.parallel(thunks):
        recs += r.records
    return recs


def _guarded(v, s):
    """float of a residue vector, NaN when the exact value is beyond what the carrier can bring back (see modq.to_fraction)"""
    try:
        return float(modq.to_fraction(v, guard=True)) * s
    except modq.Unreconstructable:
        return float('nan')


def decode(rec, guard=False):
    N = modq.to_fraction(rec['normsq'], guard=guard)
    lead = modq.to_fraction(rec['lead'], guard=guard)
    if N <= 0 or lead == 0:
        raise core.Machinery('QPoly: non-positive norm or zero leading coefficient (m=%s n=%s)' % (rec['m'], rec['n']))
    sgn = 1 if lead > 0 else -1
    s = sgn / math.sqrt(N)
    if guard:
        return dict(m=rec['m'], n=rec['n'], pts=[Fraction(*p) for p in rec['pts']], normsq=N,
                    vals=[_guarded(v, s) for v in rec['vals']], ders=[_guarded(v, s) for v in rec['ders']], qders=[])
    return dict(m=rec['m'], n=rec['n'], pts=[Fraction(*p) for p in rec['pts']], normsq=N,
                vals=[float(modq.to_fraction(v)) * s for v in rec['vals']], ders=[float(modq.to_fraction(v)) * s for v in rec['ders']],
                qders=[[float(modq.to_fraction(v)) * s for v in row] for row in rec.get('qders', [])])


def replay_values(rec, ctx, np, P):
    e = decode(rec, guard=True)
    m, n = e['m'], e['n']
    xs = np.array([float(p) for p in e['pts']])
    want = np.array(e['vals'])
    ok = np.isfinite(want)          # points whose exact value the carrier cannot bring back are not compared (counted in the notes)
    if not ok.all():
        ctx.notes.append('QPoly m=%d n=%d: %d of %d points beyond the reconstruction bound, not compared' % (m, n, int((~ok).sum()), len(ok)))
    xs, want = xs[ok], want[ok]
    if not len(xs):
        return
    tol = 1e-9 * (1 + core.maxabs(want)) * (1 + n)
    fails = []
    try:
        if m == 0:
            got = P.Qbfs(n, xs.copy())
            if core.maxabs(got - want) > tol:
                fails.append(('Qbfs:value:%s' % PL.order_cls(n), 'n=%d: got %s want %s' % (n, np.round(got, 9).tolist(), np.round(want, 9).tolist())))
            g2 = P.Q2d(n, 0, xs.copy(), np.zeros_like(xs))
            if core.maxabs(g2 - want) > tol:
                fails.append(('Q2d:value:m=0', 'Q2d(n=%d, m=0) differs from Qbfs' % n))
        else:
            for sgn in (1, -1):
                for th in THETAS:
                    az = math.cos(m * th) if sgn > 0 else math.sin(m * th)
                    got = P.Q2d(n, sgn * m, xs.copy(), np.full_like(xs, th))
                    if core.maxabs(got - want * az) > tol:
                        fails.append(('Q2d:value:m=%s:%s:%s' % (m if m <= 2 else '3+', 'cos' if sgn > 0 else 'sin', PL.order_cls(n)),
                                      'n=%d m=%d theta=%g: got %s want %s' % (n, sgn * m, th, np.round(got, 9).tolist(), np.round(want * az, 9).tolist())))
                        break
                else:
                    continue
                break
    except Exception as ex:
        fails.append(('Q:raised', 'm=%d n=%d: %s: %s' % (m, n, type(ex).__name__, ex)))
    ctx.replayed(1, key=('q', m, n))
    for kind, msg in fails:
        ctx.fail('Poly:%s' % kind, msg[:600], rec)


def run_c07(ctx, np, P):
    core.sany('QPoly')
    recs = run_spec(ctx, ctx.tier)
    for rec in recs:
        replay_values(rec, ctx, np, P)
    e = decode(recs[-1])
    ctx.sample({'fam': 'q2d' if e['m'] else 'qbfs', 'm': e['m'], 'n': e['n'], 'normsq': str(e['normsq']), 'values': e['vals'][:4]})
    ctx.notes.append('Qbfs / 2D-Q defined by exact Gram-Schmidt under the slope inner product: %d (m, n) states' % len(recs))
    return recs

"""C19 -- ray tracing obeys Snell's law and keeps rays on surfaces.  Spec: RayTrace.tla (exact rational 3-vectors; rays
constructed backwards from rational points of planes, spheres and paraboloids with Pythagorean incidence and refraction
angles; rigid frames).  Binding: every emitted state is replayed into Surface.plane/sphere/conic + raytrace (one- and
two-surface prescriptions), intersect / reflect / refract and transform_to_local/global_coords and compared with the exact
intersection point and direction cosines."""
import json
import math
from fractions import Fraction

from . import core

PROP = 'C19'


def R(a, b=1):
    return '<<%d, %d>>' % (a, b)


def V(*xs):
    return '<<%s>>' % ', '.join(R(*x) if isinstance(x, tuple) else R(x) for x in xs)


def hit(kind, c, k, q, phi, nrm, tau):
    return '[kind |-> "%s", c |-> %s, k |-> %s, q |-> %s, phi |-> %s, nrm |-> %s, tau |-> %s]' % (kind, R(*c), R(*k), V(*q), R(*phi), V(*nrm), V(*tau))


HITS = [
    hit('plane', (0, 1), (0, 1), (0, 0, 0), (1, 1), (0, 0, 1), ((3, 5), (4, 5), 0)),
    hit('plane', (0, 1), (0, 1), (3, -2, 0), (1, 1), (0, 0, 1), (1, 0, 0)),
    hit('sphere', (1, 5), (0, 1), (0, 0, 0), (1, 1), (0, 0, 1), ((3, 5), (4, 5), 0)),                   # the vertex: on-axis ray
    hit('sphere', (1, 5), (0, 1), (3, 0, 1), (4, 5), ((-3, 5), 0, (4, 5)), (0, 1, 0)),
    hit('sphere', (1, 5), (0, 1), (3, 0, 1), (4, 5), ((-3, 5), 0, (4, 5)), ((4, 5), 0, (3, 5))),
    hit('sphere', (1, 5), (0, 1), (0, 4, 2), (3, 5), (0, (-4, 5), (3, 5)), (1, 0, 0)),
    hit('sphere', (-1, 5), (0, 1), (3, 0, -1), (4, 5), ((3, 5), 0, (4, 5)), (0, 1, 0)),                 # concave
    hit('sphere', (-1, 5), (0, 1), (0, 0, 0), (1, 1), (0, 0, 1), (0, 1, 0)),
    hit('parabola', (1, 4), (-1, 1), (0, 0, 0), (1, 1), (0, 0, 1), (1, 0, 0)),
    hit('parabola', (1, 4), (-1, 1), (3, 0, (9, 8)), (1, 1), ((-3, 5), 0, (4, 5)), (0, 1, 0)),
    hit('parabola', (1, 4), (-1, 1), (0, -3, (9, 8)), (1, 1), (0, (3, 5), (4, 5)), (0, (-4, 5), (3, 5))),
    # a general conic (prolate ellipsoid, k = -19/36): phi = 8/9 at rho = 2, slope 3/4
    hit('conic', (1, 3), (-19, 36), (2, 0, (12, 17)), (8, 9), ((-3, 5), 0, (4, 5)), (0, 1, 0)),
    hit('conic', (1, 3), (-19, 36), (0, -2, (12, 17)), (8, 9), (0, (3, 5), (4, 5)), (1, 0, 0)),
]
INCID = [((1, 1), (0, 1)), ((4, 5), (3, 5)), ((3, 5), (4, 5)), ((12, 13), (5, 13)), ((-4, 5), (3, 5)), ((-1, 1), (0, 1))]
BENDS = ['[typ |-> "reflect", mu |-> <<1, 1>>, ci2 |-> <<1, 1>>, si2 |-> <<0, 1>>]'] + [
    '[typ |-> "refract", mu |-> %s, ci2 |-> %s, si2 |-> %s]' % (R(*m), R(*c), R(*s)) for m, c, s in [
        ((2, 3), (1, 1), (0, 1)), ((3, 2), (1, 1), (0, 1)),
        ((25, 39), (12, 13), (5, 13)), ((4, 3), (3, 5), (4, 5)),
        ((25, 52), (12, 13), (5, 13)), ((3, 4), (4, 5), (3, 5)),
        ((39, 25), (4, 5), (3, 5)), ((91, 125), (24, 25), (7, 25))]]
ROTX = '<<%s, %s, %s>>' % (V(1, 0, 0), V(0, (4, 5), (3, 5)), V(0, (-3, 5), (4, 5)))
ROTY = '<<%s, %s, %s>>' % (V((12, 13), 0, (-5, 13)), V(0, 1, 0), V((5, 13), 0, (12, 13)))
IDEN = '<<%s, %s, %s>>' % (V(1, 0, 0), V(0, 1, 0), V(0, 0, 1))
FRAMES = ['[rot |-> %s, pos |-> %s]' % (IDEN, V(0, 0, 0)), '[rot |-> %s, pos |-> %s]' % (IDEN, V(1, -2, 5)),
          '[rot |-> %s, pos |-> %s]' % (ROTX, V(1, -2, 5)), '[rot |-> %s, pos |-> %s]' % (ROTY, V(0, 3, -4))]
LAWS = ('MenuSound', 'OnSurface', 'UnitLaw', 'ReflectLaw', 'SnellLaw', 'RigidFrame', 'TwoSurface', 'GlassLaw')
SHIFTS = ['<<<<0, 1>>, <<0, 1>>>>', '<<<<3, 1>>, <<0, 1>>>>', '<<<<0, 1>>, <<-3, 1>>>>', '<<<<-2, 1>>, <<0, 1>>>>', '<<<<0, 1>>, <<5, 2>>>>']


def cfg(tier, emit, variant='design'):
    c = 'INIT Init\nNEXT Next\nCHECK_DEADLOCK FALSE\nCONSTANTS\n Variant = "%s"\n EmitOn = %s\n' % (variant, 'TRUE' if emit else 'FALSE')
    c += 'INVARIANT Emit\n' if emit else ''.join('INVARIANT %s\n' % i for i in LAWS)
    d = dict(Hits='{%s}' % ', '.join(HITS), Incid='{%s}' % ', '.join('<<%s, %s>>' % (R(*a), R(*b)) for a, b in INCID), Bends='{%s}' % ', '.join(BENDS),
             Frames='{%s}' % ', '.join(FRAMES if tier != 'quick' else FRAMES[:3]), Lens='{<<5, 2>>, <<7, 1>>}' if tier != 'quick' else '{<<5, 2>>}',
             Shifts='{%s}' % ', '.join(SHIFTS if tier != 'quick' else SHIFTS[:3]))
    return c, d


def fv(v):
    return [float(Fraction(x[0], x[1])) for x in v]


def replay(rec, ctx, np, SM, SF):
    h = rec['hit']
    kind = h['kind']
    c, k = float(Fraction(*h['c'])), float(Fraction(*h['k']))
    rot = np.array([fv(row) for row in rec['frame']['rot']])
    pos = np.array(fv(rec['frame']['pos']))
    bend = rec['bend']
    typ = bend['typ']
    mu = float(Fraction(*bend['mu']))
    n0 = 1.5
    n1 = n0 / mu
    p0, s0, p1, s1, p2, s2 = (np.array(fv(rec[x])) for x in ('p0', 's0', 'p1', 's1', 'p2', 's2'))
    framed = 'identity' if np.array_equal(rot, np.eye(3)) else 'tilted'
    vertex = 'vertex' if (h['q'][0][0] == 0 and h['q'][1][0] == 0) else 'off-axis'
    # does the ray cross the vertex plane z = 0 (where the Spencer-Murty iteration starts) inside the surface's domain?
    pl_, sl_ = np.array(fv(rec['p0local'])), np.array(fv(rec['s0local']))
    sx, sy = (float(Fraction(*v)) for v in rec['shift'])
    cross = pl_ - (pl_[2] / sl_[2]) * sl_ if sl_[2] != 0 else np.array([np.inf, np.inf, 0.])
    steep = kind != 'plane' and (1 + k) * c * c * float((cross[0] + sx) ** 2 + (cross[1] + sy) ** 2) >= 1
    offaxis = bool(sx or sy)
    cls = '%s:%s:%s:%s%s%s' % (kind, typ, vertex, framed, ':steep' if steep else '', (':offaxis-section' + (':local-origin' if rec['localorigin'] else '')) if offaxis else '') + (':from+z' if rec['inc'][0][0] < 0 else '')
    fails = []
    try:
        Rm = None if framed == 'identity' and not pos.any() else rot
        nfun = (lambda wvl: n1) if typ == 'refract' else None
        if offaxis:
            surf = SF.Surface.off_axis_conic(c, k, typ, pos.copy(), dy=sy, dx=sx, n=nfun, R=Rm)
        elif kind == 'plane':
            surf = SF.Surface.plane(typ, pos.copy(), n=nfun, R=Rm)
        elif kind == 'sphere':
            surf = SF.Surface.sphere(c, typ, pos.copy(), nfun, R=Rm)
        else:
            surf = SF.Surface.conic(c, k, typ, pos.copy(), n=nfun, R=Rm)
        surfaces = [surf]
        two = rec['forward']
        if two:
            surfaces.append(SF.Surface.plane('reflect', np.array([0., 0., float(Fraction(*rec['mirrorz']))])))
        ph, sh = SM.raytrace(surfaces, p0[None, :].copy(), s0[None, :].copy(), 0.6, n_ambient=n0)
        ph, sh = np.asarray(ph), np.asarray(sh)
        tol = 1e-9
        if core.maxabs(ph[1].reshape(-1)[:3] - p1) > tol:
            fails.append(('intersection', 'hit %s want %s' % (ph[1].ravel().tolist(), p1.tolist())))
        else:
            got = sh[1].reshape(-1)[:3]
            if abs(float(np.dot(got, got)) - 1) > 1e-9:
                fails.append(('unit-length', '|S\'| = %r' % float(np.linalg.norm(got))))
            if core.maxabs(got - s1) > tol:
                fails.append(('direction', 'S\' %s want %s' % (got.tolist(), s1.tolist())))
            elif two:
                if core.maxabs(ph[2].reshape(-1)[:3] - p2) > tol or core.maxabs(sh[2].reshape(-1)[:3] - s2) > tol:
                    fails.append(('second-surface', 'P2 %s S2 %s want %s %s' % (ph[2].ravel().tolist(), sh[2].ravel().tolist(), p2.tolist(), s2.tolist())))
        if two and not fails:
            # a prescription through glass: the surface, an evaluation plane inside the medium, a plane back into the ambient medium
            mz = float(Fraction(*rec['mirrorz']))
            glass = [surf, SF.Surface.plane('eval', np.array([0., 0., mz])), SF.Surface.plane('refract', np.array([0., 0., mz + 1.]), n=lambda wvl: n0)]
            ph, sh = SM.raytrace(glass, p0[None, :].copy(), s0[None, :].copy(), 0.6, n_ambient=n0)
            ph, sh = np.asarray(ph).reshape(4, -1)[:, :3], np.asarray(sh).reshape(4, -1)[:, :3]
            p3, et = np.array(fv(rec['p3'])), np.array(fv(rec['exittan']))
            if core.maxabs(ph[2] - p2) > tol or core.maxabs(sh[2] - s1) > tol:
                fails.append(('eval-plane', 'P2 %s S2 %s want %s %s' % (ph[2].tolist(), sh[2].tolist(), p2.tolist(), s1.tolist())))
            elif core.maxabs(ph[3] - p3) > tol:
                fails.append(('exit-surface', 'P3 %s want %s' % (ph[3].tolist(), p3.tolist())))
            elif rec['exitok'] and (core.maxabs(sh[3][:2] - et) > tol or abs(float(np.dot(sh[3], sh[3])) - 1) > 1e-9 or not sh[3][2] > 0):
                fails.append(('exit-snell', 'leaving the glass: S3 %s, want tangential part %s (n S x z conserved), unit length, forward' % (sh[3].tolist(), et.tolist())))
        # the building blocks on the local-frame quantities
        pl, sl = SM.transform_to_local_coords(p0[None, :].copy(), pos, s0[None, :].copy(), Rm)
        if core.maxabs(np.ravel(pl) - np.array(fv(rec['p0local']))) > tol or core.maxabs(np.ravel(sl) - np.array(fv(rec['s0local']))) > tol:
            fails.append(('transform_to_local_coords', 'local P %s S %s want %s %s' % (np.ravel(pl).tolist(), np.ravel(sl).tolist(), fv(rec['p0local']), fv(rec['s0local']))))
        pg, sg = SM.transform_to_global_coords(np.asarray(pl), pos, np.asarray(sl), None if Rm is None else Rm.T)
        if core.maxabs(np.ravel(pg) - p0) > tol or core.maxabs(np.ravel(sg) - s0) > tol:
            fails.append(('transform_round_trip', 'global(local(P)) != P'))
    except Exception as ex:
        import traceback
        if not any('/prysm/' in f.filename for f in traceback.extract_tb(ex.__traceback__)):
            raise
        fails.append(('raised', '%s: %s' % (type(ex).__name__, ex)))
    ctx.replayed(1, key=json.dumps([rec['hit'], rec['inc'], rec['bend'], rec['frame'], rec['len'], rec['shift']]))
 
    for kind_, m in fails:
        # tags that have no bearing on the failure are left out of the signature (the steep-ray NaN does not depend on the side
        # the ray comes from; the local-origin normal does not either)
        cls_ = cls
        if (steep and kind_ == 'intersection') or rec['localorigin']:
            cls_ = cls_.replace(':from+z', '')
        if steep and kind_ == 'intersection':
            cls_ = cls_.replace(':local-origin', '')
        ctx.fail('Ray:%s:%s' % (kind_, cls_), 'c=%s k=%s Q=%s inc=%s mu=%s: %s' % (c, k, fv(h['q']), rec['inc'], mu, m[:400]), rec)


def replay_batches(recs, ctx, np, SM, SF):
    """The same rays traced as ONE (N, 3) batch per surface: every ray of a batch must come out as it does alone (rays converge
    on different Newton iterations; the first ray of a batch may hit the vertex)."""
    groups = {}
    for rec in recs:
        h = rec['hit']
        key = json.dumps([h['kind'], h['c'], h['k'], rec['shift'], rec['frame'], rec['bend'], rec['len']])
        groups.setdefault(key, []).append(rec)
    n0 = 1.5
    for key, grp in groups.items():
        if len(grp) < 2:
            continue
        grp = sorted(grp, key=lambda r: 0 if (r['hit']['q'][0][0] == 0 and r['hit']['q'][1][0] == 0) else 1)     # a vertex ray first
        rec = grp[0]
        h = rec['hit']
        kind, typ = h['kind'], rec['bend']['typ']
        c, k = float(Fraction(*h['c'])), float(Fraction(*h['k']))
        rot = np.array([fv(row) for row in rec['frame']['rot']])
        pos = np.array(fv(rec['frame']['pos']))
        sx, sy = (float(Fraction(*v)) for v in rec['shift'])
        Rm = None if np.array_equal(rot, np.eye(3)) and not pos.any() else rot
        n1 = n0 / float(Fraction(*rec['bend']['mu']))
        nfun = (lambda wvl: n1) if typ == 'refract' else None
        keep = []
        for r in grp:
            pl_, sl_ = np.array(fv(r['p0local'])), np.array(fv(r['s0local']))
            cross = pl_ - (pl_[2] / sl_[2]) * sl_ if sl_[2] != 0 else np.array([np.inf, np.inf, 0.])
            steep = kind != 'plane' and (1 + k) * c * c * float((cross[0] + sx) ** 2 + (cross[1] + sy) ** 2) >= 1
            if not steep and not r['localorigin']:
                keep.append(r)          # (the two recorded findings are single-ray defects; they stay out of the batches)
        if len(keep) < 2:
            continue
        try:
            if sx or sy:
                surf = SF.Surface.off_axis_conic(c, k, typ, pos.copy(), dy=sy, dx=sx, n=nfun, R=Rm)
            elif kind == 'plane':
                surf = SF.Surface.plane(typ, pos.copy(), n=nfun, R=Rm)
            elif kind == 'sphere':
                surf = SF.Surface.sphere(c, typ, pos.copy(), nfun, R=Rm)
            else:
                surf = SF.Surface.conic(c, k, typ, pos.copy(), n=nfun, R=Rm)
            P = np.array([fv(r['p0']) for r in keep])
            S = np.array([fv(r['s0']) for r in keep])
            ph, sh = SM.raytrace([surf], P.copy(), S.copy(), 0.6, n_ambient=n0)
            wantp = np.array([fv(r['p1']) for r in keep])
            wants = np.array([fv(r['s1']) for r in keep])
            bad = [i for i in range(len(keep)) if core.maxabs(np.asarray(ph)[1][i] - wantp[i]) > 1e-9 or core.maxabs(np.asarray(sh)[1][i] - wants[i]) > 1e-9]
            if bad:
                i = bad[0]
                ctx.fail('Ray:batch:%s:%s' % (kind, typ), 'surface %s c=%s k=%s, %d rays traced together: ray %d comes out at %s direction %s, alone at %s direction %s'
                         % (kind, c, k, len(keep), i, np.asarray(ph)[1][i].tolist(), np.asarray(sh)[1][i].tolist(), wantp[i].tolist(), wants[i].tolist()), keep[i])
        except Exception as ex:
            import traceback
            if not any('/prysm/' in f.filename for f in traceback.extract_tb(ex.__traceback__)):
                raise
            ctx.fail('Ray:batch:%s:%s:raised' % (kind, typ), '%s: %s' % (type(ex).__name__, ex), rec)
        ctx.replayed(1, key=('batch', key))


def replay_rotation(ctx, np, SM):
    """make_rotation_matrix-built frames: into and out of the frame is a rigid motion (lengths, dot products, inverse)."""
    from prysm.coordinates import make_rotation_matrix
    rng = np.random.RandomState(ctx.seed + 11)
    for zyx in ((0, 0, 0), (10, 0, 0), (0, 20, 0), (0, 0, -30), (12, -7, 33), (90, 45, 180)):
        Rm = make_rotation_matrix(zyx)
        pos = rng.normal(size=3)
        X = rng.normal(size=(5, 3))
        S = rng.normal(size=(5, 3))
        S /= np.linalg.norm(S, axis=1)[:, None]
        xl, sl = SM.transform_to_local_coords(X.copy(), pos, S.copy(), Rm)
        xg, sg = SM.transform_to_global_coords(np.asarray(xl), pos, np.asarray(sl), Rm.T)
        ok = (core.maxabs(Rm @ Rm.T - np.eye(3)) < 1e-12 and abs(np.linalg.det(Rm) - 1) < 1e-12 and core.maxabs(xg - X) < 1e-12 and core.maxabs(sg - S) < 1e-12
              and core.maxabs(np.linalg.norm(sl, axis=1) - 1) < 1e-12 and core.maxabs(np.linalg.norm(np.asarray(xl)[1:] - np.asarray(xl)[:-1], axis=1) - np.linalg.norm(X[1:] - X[:-1], axis=1)) < 1e-12)
        if not ok:
            ctx.fail('Ray:frame:not-rigid', 'make_rotation_matrix(%s): into/out of the frame is not a rigid motion' % (zyx,), {'zyx': zyx})
        ctx.replayed(1, key=('rot', zyx))


def run(ctx, replay_path=None, selftest=False, replay=None):
    import numpy as np
    from prysm.x.raytracing import spencer_and_murty as SM, surfaces as SF
    replay_path = replay_path or replay
    for m in ('Rat', 'RayTrace'):
        core.sany(m)
    fn = globals()['replay']
    if replay_path:
        rec = json.load(open(replay_path))['record']
        c, d = cfg('quick', False, variant='grad-normal')
        ctx.tlc('RayTrace', c, defs=d, name='replay-smoke', emit=False, must_hold=False)
        if 'hit' in rec:
            fn(rec, ctx, np, SM, SF)
        else:
            replay_rotation(ctx, np, SM)
        return
    c, d = cfg(ctx.tier, False)
    ctx.tlc('RayTrace', c, defs=d, name='laws', emit=False, require_actions=('Compute',))
    c, d = cfg('quick', False, variant='grad-normal')
    ctx.tlc('RayTrace', c, defs=d, name='pinned-gradient-normal', emit=False, must_hold=False, count=False)
    c, d = cfg(ctx.tier, True)
    r = ctx.tlc('RayTrace', c, defs=d, name='emit', coverage=False, count=False)
    for rec in r.records:
        fn(rec, ctx, np, SM, SF)
    replay_batches(r.records, ctx, np, SM, SF)
    replay_rotation(ctx, np, SM)
    if selftest:
        rec = json.loads(json.dumps(next(x for x in r.records if x['bend']['typ'] == 'refract' and x['hit']['kind'] == 'sphere')))
        rec['s1'][0] = [rec['s1'][0][0] * 1000 + rec['s1'][0][1], rec['s1'][0][1] * 1000]
        before = len(ctx.fails)
        fn(rec, ctx, np, SM, SF)
        if len(ctx.fails) == before:
            raise core.Machinery('selftest: corrupted exact direction cosine not rejected')
        del ctx.fails[before:]
        ctx.notes.append('selftest: corrupted exact direction cosine rejected')
    ctx.sample({k: r.records[40][k] for k in ('hit', 'inc', 'bend', 'len', 'p0', 's0', 'p1', 's1')})
    ctx.bounds = {'hits': len(HITS), 'incidences': INCID, 'bends': len(BENDS), 'frames': 3 if ctx.tier == 'quick' else 4}
    ctx.assumptions += ['rays are constructed backwards from rational surface points with Pythagorean incidence / refraction angles; Q-type and off-axis-conic surfaces are outside this family (their sag and derivatives are bound through C09 / C07)',
                        'Newton-Raphson intersection is expected to converge to the constructed hit point to 1e-9']

"""C11 -- Zernike and XY index conventions are bijections onto valid orders.  Spec: ZernikeIndex.tla (integer-only
constructive definitions; validity, both round trips, ordering rules and surjectivity checked by TLC for every index).
Binding: the specification's table is exported for every index of the walk and compared, entry by entry and without
sampling, with noll_to_nm / fringe_to_nm / nm_to_fringe / ansi_j_to_nm / nm_to_ansi_j / xy_j_to_mn."""
import json

from . import core

PROP = 'C11'
LAWS = ('Groups', 'NollOK', 'FringeOK', 'AnsiOK', 'XyOK', 'Onto')


def cfg(J, B, emit):
    c = 'INIT Init\nNEXT Next\nCHECK_DEADLOCK FALSE\nCONSTANTS\n J = %d\n Block = %d\n EmitOn = %s\n' % (J, B, 'TRUE' if emit else 'FALSE')
    c += 'INVARIANT Emit\n' if emit else ''.join('INVARIANT %s\n' % i for i in LAWS) + 'PROPERTY Ordered\n'
    return c


def bucket(j):
    return '<=100' if j <= 100 else ('<=10^4' if j <= 10000 else '>10^4')


def compare_rows(rows, ctx, xy_limit):
    from prysm.polynomials import noll_to_nm, fringe_to_nm, nm_to_fringe, ansi_j_to_nm, nm_to_ansi_j
    from prysm.polynomials.xy import xy_j_to_mn
    for row in rows:
        j, nn, nm, fn, fm, an, am, xm, xn = row
        checks = [('noll_to_nm', lambda: tuple(int(v) for v in noll_to_nm(j)), (nn, nm)),
                  ('fringe_to_nm', lambda: tuple(int(v) for v in fringe_to_nm(j)), (fn, fm)),
                  ('nm_to_fringe', lambda: int(nm_to_fringe(fn, fm)), j),
                  ('ansi_j_to_nm', lambda: tuple(int(v) for v in ansi_j_to_nm(j - 1)), (an, am)),
                  ('nm_to_ansi_j', lambda: int(nm_to_ansi_j(an, am)), j - 1)]
        if j <= xy_limit:
            checks.append(('xy_j_to_mn', lambda: tuple(int(v) for v in xy_j_to_mn(j)), (xm, xn)))
        for name, fn_, want in checks:
            try:
                got = fn_()
            except Exception as ex:
                got = 'raised %s: %s' % (type(ex).__name__, ex)
            if got != want:
                ctx.fail('Index:%s:%s' % (name, bucket(j)), 'index %d: got %s want %s' % (j if 'ansi' not in name else j - 1, got, want), {'rows': [row]})
    ctx.replayed(len(rows))


def run(ctx, replay=None, selftest=False):
    core.sany('ZernikeIndex')
    quick = ctx.tier == 'quick'
    J, B = (60000, 1000) if quick else (100000, 1000)
    xy_limit = 3000 if quick else 20000          # xy_j_to_mn walks its table: quadratic in the index
    if replay:
        rows = json.load(open(replay))['record']['rows']
        ctx.tlc('ZernikeIndex', cfg(100, 50, False), name='replay-smoke', emit=False)
        compare_rows(rows, ctx, 10 ** 9)
        return
    ctx.tlc('ZernikeIndex', cfg(J, B, False), name='laws', emit=False, require_actions=('Step',))
    r = ctx.tlc('ZernikeIndex', cfg(J, B, True), name='table:emit', coverage=False, count=False)
    rows = [row for rec in r.records for row in rec['rows']]
    js = sorted(row[0] for row in rows)
    if js != list(range(1, J + 1)):
        raise core.Machinery('exported table does not cover 1..%d exactly (%d rows)' % (J, len(js)))
    rows.sort()
    compare_rows(rows, ctx, xy_limit)
    # the maps must be functions of the index alone: a second pass in DESCENDING order (whatever the library memoised
    # during the ascending pass is now in place) must give the same table
    n_first = len(ctx.fails)
    compare_rows(rows[::-1], ctx, xy_limit)
    for k in range(n_first, len(ctx.fails)):
        sig, det, rec = ctx.fails[k]
        ctx.fails[k] = (sig + ':second-pass', det, rec)
    ctx.distinct_keys.update(range(1, J + 1))
    if selftest:
        bad = [list(rows[77])]
        bad[0][2] = -bad[0][2] if bad[0][2] else 1
        before = len(ctx.fails)
        compare_rows(bad, ctx, xy_limit)
        if len(ctx.fails) == before:
            raise core.Machinery('selftest: flipped Noll sign not rejected')
        del ctx.fails[before:]
        ctx.traces -= 1
        ctx.notes.append('selftest: flipped sign in one table row rejected')
    ctx.sample({'columns': ['j', 'noll_n', 'noll_m', 'fringe_n', 'fringe_m', 'ansi_n(j-1)', 'ansi_m(j-1)', 'xy_m', 'xy_n'], 'rows': sorted(rows)[:6]})
    ctx.sample({'rows': sorted(rows)[-2:]})
    ctx.bounds = {'J': J, 'block': B, 'xy_limit': xy_limit, 'max_radial_order': max(r_[1] for r_ in rows)}
    ctx.exhaustive = True
    ctx.assumptions += ['ANSI indices are 0-based: the walk visits ANSI index j-1', 'xy_j_to_mn is compared up to index %d only (its search is quadratic in the index)' % xy_limit]

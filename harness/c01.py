"""C01 -- FFT, matrix-DFT and chirp-Z compute the same (textbook) transform; no history dependence.

Specs: Dft.tla (exact kernels of the three routes, laws checked by TLC, configurations emitted),
Executors.tla (+ExecutorsTrace.tla): cache / precision / clear() history machine.
Binding: every emitted 2-D configuration is replayed into mdft.dft2/idft2, czt.czt2/iczt2, propagation.focus/
unfocus/focus_fixed_sampling/unfocus_fixed_sampling and the Wavefront methods and compared with the exact
kernel; executor histories are replayed into the real shared executors and the executions recorded from the real
code are validated against the trace specification."""
import json
import math
import os
import random
import tempfile
from fractions import Fraction

from . import core, dftlib as D

PROP = 'C01'

MENU = {
    'quick': dict(Ns=range(1, 7), Ms=range(1, 8), Qs=[(1, 1), (2, 1), (3, 2), (1, 2), (5, 4)],
                  Ss=[(0, 1), (1, 1), (-1, 2), (3, 4)]),
    'thorough': dict(Ns=range(1, 10), Ms=range(1, 11), Qs=[(1, 1), (2, 1), (3, 2), (1, 2), (5, 4), (3, 1), (7, 8)],
                     Ss=[(0, 1), (1, 1), (-1, 2), (3, 4), (-2, 1), (5, 2)]),
}
PARTNERS = [(4, 4, (1, 1), (0, 1)), (5, 6, (2, 1), (1, 1)), (6, 3, (3, 2), (-1, 2)),
            (3, 7, (5, 4), (3, 4)), (2, 5, (1, 2), (0, 1)), (1, 2, (1, 1), (0, 1))]
FFT_MENU = {'quick': dict(Ns=range(1, 7), Qs=[(1, 1), (2, 1), (3, 1), (3, 2), (5, 4)]),
            'thorough': dict(Ns=range(1, 11), Qs=[(1, 1), (2, 1), (3, 1), (3, 2), (5, 4), (4, 1), (7, 4)])}
FIXED_MENU = {'quick': dict(Ns=[2, 3, 4, 5], Ms=[3, 4, 6], NQs=[(6, 1), (15, 2), (4, 1)], Ss=[(0, 1), (1, 1), (-3, 2)]),
              'thorough': dict(Ns=[1, 2, 3, 4, 5, 6, 7], Ms=[2, 3, 4, 6, 7], NQs=[(6, 1), (15, 2), (4, 1), (9, 1), (21, 4)],
                               Ss=[(0, 1), (1, 1), (-3, 2), (5, 4)])}
# executor keys (row axis, col axis): (n, m, Q, shift)
KEYS = {
    'K1': ((4, 4, (1, 1), (0, 1)), (4, 4, (1, 1), (0, 1))),
    'K2': ((3, 6, (2, 1), (-1, 2)), (5, 4, (3, 2), (1, 1))),
    'K3': ((6, 5, (5, 4), (0, 1)), (2, 5, (5, 4), (0, 1))),
    'K4': ((4, 4, (1, 1), (1, 1)), (4, 4, (1, 1), (1, 1))),
    'K5': ((5, 5, (2, 1), (0, 1)), (3, 7, (1, 2), (3, 4))),
    # keys that share exactly one axis configuration with K1 (a per-axis cache must not leak the other axis)
    'K6': ((6, 4, (2, 1), (0, 1)), (4, 4, (1, 1), (0, 1))),
    'K7': ((4, 4, (1, 1), (0, 1)), (8, 5, (1, 2), (0, 1))),
}


def tol(f, normsq, np, fft=False):
    s = float(np.abs(f).sum()) * math.sqrt(normsq) + 1e-300
    return (2e-9 if fft else 2e-10) * s


def compare(got, exp, f, normsq, shifted, np, loose=False):
    """None if equal (complex value when unshifted, modulus when a shift is requested), else a message."""
    got = np.asarray(got)
    if got.shape != exp.shape:
        return 'shape %s want %s' % (got.shape, exp.shape)
    t = tol(f, normsq, np, fft=loose)
    if shifted:
        err = float(core.maxabs(np.abs(got) - np.abs(exp))) if got.size else 0.
    else:
        err = float(core.maxabs(got - exp)) if got.size else 0.
    if not (err <= t):
        return '%s error %.3g > %.3g' % ('modulus' if shifted else 'value', err, t)
    return None


def normsq_of(rec):
    r, c = rec['row'], rec['col']
    return float(Fraction(r['q'][1], r['n'] * r['q'][0]) * Fraction(c['q'][1], c['n'] * c['q'][0]))


def api_args(rec, variant):
    """Public arguments of mdft/czt for an emitted configuration.  variant 'tuple' always passes tuples;
    'scalar' collapses equal per-axis values to scalars (the documented broadcast rule)."""
    a = rec['args']
    Q = tuple(D.qf(q) for q in a['Q'])
    out = tuple(a['out'])
    sh = tuple(D.qf(s) for s in a['shift'])
    if variant == 'scalar':
        if Q[0] == Q[1]:
            Q = Q[0]
        if out[0] == out[1]:
            out = out[0]
        if sh[0] == sh[1]:
            sh = sh[0]
    return Q, out, sh


def sig(rec, site):
    r, c = rec['row'], rec['col']
    sq = 'sq' if (r['n'] == c['n'] and r['m'] == c['m'] and r['q'] == c['q'] and r['s'] == c['s']) else 'nonsq'
    return 'Dft:%s:%s:row=%s:col=%s:dir=%d' % (site, sq, D.cls_axis(r), D.cls_axis(c), rec['dir'])


def replay_pair(rec, ctx, np, selftest_state=None):
    from prysm import fttools
    r, c = rec['row'], rec['col']
    shifted = r['s'][0] != 0 or c['s'][0] != 0
    nsq = normsq_of(rec)
    for cplx in (True, False):
        f = D.field(r['n'], c['n'], np, cplx=cplx, salt=r['m'] + c['m'])
        exp = D.expected(rec, f, np)
        for variant in ('tuple', 'scalar'):
            Q, out, sh = api_args(rec, variant)
            if variant == 'scalar' and (Q, out, sh) == api_args(rec, 'tuple'):
                continue
            calls = [('mdft.dft2' if rec['dir'] == 1 else 'mdft.idft2', fttools.mdft.dft2 if rec['dir'] == 1 else fttools.mdft.idft2, False),
                     ('czt.czt2' if rec['dir'] == 1 else 'czt.iczt2', fttools.czt.czt2 if rec['dir'] == 1 else fttools.czt.iczt2, True)]
            for name, fn, loose in calls:
                try:
                    got = fn(f.copy(), Q, out, sh)
                    msg = compare(got, exp, f, nsq, shifted, np, loose=loose)
                    if selftest_state is not None and msg is None and not selftest_state.get('done') and got.size > 1 and abs(exp.flat[0]) > 1e-6:
                        bad = np.array(got, dtype=complex)
                        bad.flat[0] *= 1.01
                        if compare(bad, exp, f, nsq, shifted, np, loose=loose) is None:
                            raise core.Machinery('selftest: 1% error in one output sample was not rejected')
                        selftest_state['done'] = True
                except core.Machinery:
                    raise
                except Exception as ex:
                    msg = 'raised %s: %s' % (type(ex).__name__, ex)
                ctx.replayed(1, key=(name, json.dumps(rec['args']), rec['dir'], cplx))
                if msg:
                    ctx.fail(sig(rec, name), '%s args=%s variant=%s complex=%s: %s' % (name, rec['args'], variant, cplx, msg), rec)
    # the shared executors keep their caches across configurations (neighbouring configurations share one axis
    # exactly), so a cache that forgets part of what a basis depends on is exposed; emptied now and then for memory
    replay_pair.count = getattr(replay_pair, 'count', 0) + 1
    if replay_pair.count % 512 == 0:
        fttools.mdft.clear()
        fttools.czt.clear()


def replay_fft(rec, ctx, np):
    """propagation.focus / unfocus and Wavefront.focus / unfocus against the textbook kernel with Q' = N/n."""
    from prysm import propagation as P
    r, c = rec['row'], rec['col']
    Q = D.qf(rec['req'])
    nsq = normsq_of(rec)
    for cplx in (True, False):
        f = D.field(r['n'], c['n'], np, cplx=cplx, salt=3)
        exp = D.expected(rec, f, np)
        fwd = rec['dir'] == 1
        name = 'propagation.focus' if fwd else 'propagation.unfocus'
        for via in ('function', 'Wavefront'):
            try:
                if via == 'function':
                    got = (P.focus if fwd else P.unfocus)(f.copy(), Q)
                else:
                    w = P.Wavefront(f.copy(), .5, .25, space='pupil' if fwd else 'psf')
                    got = (w.focus(10., Q=Q) if fwd else w.unfocus(10., Q=Q)).data
                msg = compare(got, exp, f, nsq, False, np, loose=True)
            except Exception as ex:
                msg = 'raised %s: %s' % (type(ex).__name__, ex)
            ctx.replayed(1, key=(name, via, r['n'], c['n'], tuple(rec['req']), cplx))
            if msg:
                ctx.fail(sig(rec, name + ('' if via == 'function' else ':Wavefront')), 'shape=%s Q=%s complex=%s: %s' % ((r['n'], c['n']), Q, cplx, msg), rec)


PHYS = [dict(lam=Fraction(1, 2), dxin=Fraction(1, 4), dxout=Fraction(2)), dict(lam=Fraction(1), dxin=Fraction(1), dxout=Fraction(1))]


def replay_fixed(rec, ctx, np):
    """focus_fixed_sampling / unfocus_fixed_sampling (both methods, function and Wavefront forms): physical
    arguments chosen so that lambda z / (dx_in dx_out) = n Q on both axes."""
    from prysm import propagation as P
    from prysm import fttools
    r, c = rec['row'], rec['col']
    nq = Fraction(rec['req'][0], rec['req'][1])
    shifted = r['s'][0] != 0 or c['s'][0] != 0
    nsq = normsq_of(rec)
    fwd = rec['dir'] == 1
    f = D.field(r['n'], c['n'], np, cplx=True, salt=5)
    exp = D.expected(rec, f, np)
    for ph in PHYS[:1 if (r['n'] + c['n']) % 2 else 2]:
        z = nq * ph['dxin'] * ph['dxout'] / ph['lam']
        out = (r['m'], c['m'])
        if out[0] == out[1] and r['n'] % 2:
            out = out[0]
        shift = (float(D.qf(c['s']) * ph['dxout']), float(D.qf(r['s']) * ph['dxout']))
        for method in ('mdft', 'czt'):
            for via in ('function', 'Wavefront'):
                name = ('focus_fixed_sampling' if fwd else 'unfocus_fixed_sampling')
                try:
                    if via == 'function':
                        fn = P.focus_fixed_sampling if fwd else P.unfocus_fixed_sampling
                        got = fn(f.copy(), float(ph['dxin']), float(z), float(ph['lam']), float(ph['dxout']), out, shift=shift, method=method)
                    else:
                        w = P.Wavefront(f.copy(), float(ph['lam']), float(ph['dxin']), space='pupil' if fwd else 'psf')
                        fn = w.focus_fixed_sampling if fwd else w.unfocus_fixed_sampling
                        got = fn(float(z), float(ph['dxout']), out, shift=shift, method=method).data
                    msg = compare(got, exp, f, nsq, shifted, np, loose=True)
                except Exception as ex:
                    msg = 'raised %s: %s' % (type(ex).__name__, ex)
                ctx.replayed(1, key=(name, method, via, json.dumps(rec['args']), rec['dir']))
                if msg:
                    ctx.fail(sig(rec, '%s:%s' % (name, method)), 'shape=%s out=%s nQ=%s shift=%s via=%s: %s' % ((r['n'], c['n']), out, nq, shift, via, msg), rec)
    fttools.mdft.clear()
    fttools.czt.clear()


# ---------------------------------------------------------------------------------------------
# executor history machine

def exec_cfg(keys, depth, bounded, key_has_prec=True, emit=False, emit_len=0, invs=('TypeOK', 'HistoryFree'), props=('ClearForgets',), view=True):
    cfg = 'INIT Init\nNEXT Next\nCHECK_DEADLOCK FALSE\nCONSTANTS\n Depth = %d\n Bounded = %s\n KeyHasPrecision = %s\n EmitOn = %s\n EmitLen = %d\n' % (
        depth, 'TRUE' if bounded else 'FALSE', 'TRUE' if key_has_prec else 'FALSE', 'TRUE' if emit else 'FALSE', emit_len)
    cfg += ''.join('INVARIANT %s\n' % i for i in invs)
    cfg += ''.join('PROPERTY %s\n' % i for i in props)
    if emit:
        cfg += 'INVARIANT Emit\n'
    if view and not emit:
        cfg += 'VIEW View\n'
    return cfg, {'Keys': '{%s}' % ', '.join('"%s"' % k for k in keys)}


class ExecDriver:
    """Drives the real shared executors along an abstract action sequence and records what is observable."""

    def __init__(self, tables, np):
        self.tables = tables   # key -> {dir: rec}
        self.np = np

    def reset(self):
        from prysm import fttools
        from prysm.conf import config
        config.precision = 64
        fttools.mdft.clear()
        fttools.czt.clear()

    def classify(self, got, exp, f, nsq, exact=False):
        np = self.np
        got = np.asarray(got)
        if got.shape != exp.shape:
            return 0
        s = float(np.abs(f).sum()) * math.sqrt(nsq) + 1e-300
        err = float((np.abs(got - exp) if exact else np.abs(np.abs(got) - np.abs(exp))).max()) / s
        if err < 2e-10:
            return 64
        if err < 1e-3:
            return 32
        return 0

    def step(self, act):
        """returns the event record (what a recorder at the public API can see)."""
        from prysm import fttools
        from prysm.conf import config
        np = self.np
        a, k = act['a'], act['k']
        ev = {'a': a, 'k': k, 'p': act.get('p', 0), 'cls': 0}
        if a == 'prec':
            config.precision = act['p']
        elif a == 'clear_mdft':
            fttools.mdft.clear()
        elif a == 'clear_czt':
            fttools.czt.clear()
        else:
            d = -1 if a in ('idft2', 'iczt2', 'idft2_backprop') else 1
            rec = self.tables[k][d]
            r, c = rec['row'], rec['col']
            Q, out, sh = api_args(rec, 'tuple')
            nsq = normsq_of(rec)
            mdft_call = 'dft2' in a
            # matrix-DFT calls are compared (complex) with the kernel that route is specified to build, which TLC
            # proved phase-equivalent to the textbook kernel; chirp-Z calls with the textbook kernel in modulus
            Er = D.table(rec['rowM'], rec['rowL2'], np) if mdft_call else D.table(rec['rowE'], rec['rowL'], np)
            Ec = D.table(rec['colM'], rec['colL2'], np) if mdft_call else D.table(rec['colE'], rec['colL'], np)
            if a.endswith('_backprop'):
                fbar = D.field(r['m'], c['m'], np, cplx=True, salt=1)
                exp = (Er.conj().T @ fbar @ Ec.conj()) * math.sqrt(nsq)
                fn = fttools.mdft.dft2_backprop if d == 1 else fttools.mdft.idft2_backprop
                got = fn(fbar, Q, (r['n'], c['n']), sh)
                ev['cls'] = self.classify(got, exp, fbar, nsq, exact=True)
            else:
                f = D.field(r['n'], c['n'], np, cplx=True, salt=2)
                exp = (Er @ f @ Ec.T) * math.sqrt(nsq)
                fn = {'dft2': fttools.mdft.dft2, 'idft2': fttools.mdft.idft2, 'czt2': fttools.czt.czt2, 'iczt2': fttools.czt.iczt2}[a]
                got = fn(f, Q, out, sh)
                ev['cls'] = self.classify(got, exp, f, nsq, exact=mdft_call)
        ev['nM0'] = fttools.mdft.nbytes() == 0
        ev['nZ0'] = fttools.czt.nbytes() == 0
        ev['prec'] = 64 if config.precision == np.float64 else 32
        return ev


def validate_traces(ctx, traces, keys, name):
    """ExecutorsTrace.tla over a batch; returns list of (tid, reached_l) for rejected traces."""
    if not traces:
        return []
    fd, path = tempfile.mkstemp(prefix='verif_trace_', suffix='.json')
    try:
        with os.fdopen(fd, 'w') as fh:
            json.dump(traces, fh)
        cfg = ('INIT TraceInit\nNEXT TraceNext\nCHECK_DEADLOCK FALSE\nCONSTANTS\n Depth = 0\n Bounded = FALSE\n KeyHasPrecision = TRUE\n'
               ' EmitOn = FALSE\n EmitLen = 0\nINVARIANT Accept\nINVARIANT Progress\n')
        r = ctx.tlc('ExecutorsTrace', cfg, defs={'Keys': '{%s}' % ', '.join('"%s"' % k for k in keys)}, name=name,
                    env={'TRACE_FILE': path}, coverage=False, count=True)
        acc = {v[0] for t, v in r.prints if t == 'ACCEPT'}
        reach = {}
        for t, v in r.prints:
            if t == 'AT':
                reach[v[0]] = max(reach.get(v[0], 0), v[1])
        return [(tid, reach.get(tid, 0)) for tid in range(1, len(traces) + 1) if tid not in acc]
    finally:
        os.unlink(path)


def run_executors(ctx, np, selftest=False):
    quick = ctx.tier == 'quick'
    keys = ['K1', 'K6', 'K7', 'K2', 'K3'] if quick else ['K1', 'K6', 'K7', 'K2', 'K3', 'K4', 'K5']
    core.sany('Executors')
    core.sany('ExecutorsTrace')
    # every history of any length, specified design: the invariant holds
    c, d = exec_cfg(keys[:2] if quick else keys[:3], 0, False)
    ctx.tlc('Executors', c, defs=d, name='executors-all-histories', emit=False,
            require_actions=('SetPrecision', 'MdftCall', 'CztCall', 'ClearM', 'ClearZ'))
    # pinned key (no precision): must violate HistoryFree
    c, d = exec_cfg(keys[:2], 0, False, key_has_prec=False, props=())
    ctx.tlc('Executors', c, defs=d, name='executors-pinned-key', emit=False, must_hold=False, count=False)
    # exact tables of the keys from Dft.tla
    kp = [KEYS[k] for k in keys]
    cfgk, defk = D.dft_cfg('keys', [1], [1], [(1, 1)], [(0, 1)], emit=True, keypairs=kp)
    rk = ctx.tlc('Dft', cfgk, defs=defk, name='executor-keys', coverage=False)
    tables = {}
    for rec in rk.records:
        for k in keys:
            a, b = KEYS[k]
            if (rec['row']['n'], rec['row']['m'], tuple(rec['row']['q']), tuple(rec['row']['s'])) == a and \
               (rec['col']['n'], rec['col']['m'], tuple(rec['col']['q']), tuple(rec['col']['s'])) == b:
                tables.setdefault(k, {})[rec['dir']] = rec
    if set(tables) != set(keys):
        raise core.Machinery('executor key tables missing: %s' % (set(keys) - set(tables)))
    drv = ExecDriver(tables, np)
    # bounded exhaustive behaviours + simulate walks
    depth = 3 if quick else 4
    c, d = exec_cfg(keys[:2] if quick else keys[:3], depth, True, emit=True, emit_len=depth, invs=(), props=())
    r1 = ctx.tlc('Executors', c, defs=d, name='executors-depth%d' % depth, coverage=False, count=False)
    nsim, dsim = (300, 30) if quick else (3000, 40)
    c, d = exec_cfg(keys, dsim, True, emit=True, emit_len=dsim, invs=(), props=())
    r2 = ctx.tlc('Executors', c, defs=d, name='executors-simulate', coverage=False, count=False,
                 simulate=dict(num=nsim, depth=dsim + 1, seed=ctx.seed + 1))
    traces = []
    behaviours = [r['hist'] for r in r1.records] + [r['hist'] for r in r2.records]
    # own randomized driver (code -> spec only): programs not generated by TLC
    rnd = random.Random(ctx.seed)
    acts = ['dft2', 'idft2', 'dft2_backprop', 'idft2_backprop', 'czt2', 'iczt2']
    for _ in range(100 if quick else 1000):
        h = []
        for _ in range(rnd.randint(5, 25)):
            x = rnd.random()
            if x < .2:
                h.append({'a': 'prec', 'k': '', 'p': rnd.choice([32, 64])})
            elif x < .3:
                h.append({'a': rnd.choice(['clear_mdft', 'clear_czt']), 'k': '', 'p': 0})
            else:
                h.append({'a': rnd.choice(acts), 'k': rnd.choice(keys), 'p': 0})
        behaviours.append(h)
    try:
        for h in behaviours:
            drv.reset()
            tr = []
            prec = 64
            for i, act in enumerate(h):
                try:
                    ev = drv.step(act)
                except Exception as ex:
                    ctx.fail('Executors:%s:raised' % act['a'], 'hist=%s raised %s: %s' % (h[:i + 1], type(ex).__name__, ex), {'hist': h})
                    break
                tr.append(ev)
                if act['a'] == 'prec':
                    prec = act['p']
                # spec -> code: the specification's post-state says cls >= precision for every call
                if act['a'] not in ('prec', 'clear_mdft', 'clear_czt') and ev['cls'] < prec:
                    last_prec = [a['p'] for a in h[:i] if a['a'] == 'prec']
                    ctx.fail('Executors:%s:class%d-under-precision%d' % (act['a'], ev['cls'], prec),
                             'after %s the call %s(%s) returned accuracy class %d under precision %d' % (h[:i], act['a'], act['k'], ev['cls'], prec),
                             {'hist': h[:i + 1]})
                    break
            traces.append(tr)
            ctx.replayed(1, key=('exec', json.dumps(h)))
        ctx.sample({'kind': 'executor-history', 'hist': behaviours[0][:6], 'observed': traces[0][:6]})
    finally:
        drv.reset()
    # code -> spec: the recorded executions must be behaviours of the specification
    rej = validate_traces(ctx, traces, keys, 'executors-trace-validation')
    for tid, l in rej[:20]:
        tr = traces[tid - 1]
        ev = tr[l - 1] if 0 < l <= len(tr) else None
        ctx.fail('ExecutorsTrace:rejected:%s' % (ev['a'] if ev else '?'),
                 'trace %d rejected at event %d: %s (prefix %s)' % (tid, l, ev, tr[max(0, l - 4):l - 1]), {'trace': tr})
    ctx.traces += len(traces) - len(rej)
    if selftest:
        # binding demonstration: corrupt one recorded field and require rejection
        bad = json.loads(json.dumps(traces[:50]))
        n = 0
        for tr in bad:
            for ev in tr:
                if ev['a'] in ('dft2', 'idft2') and ev['prec'] == 64:
                    ev['cls'] = 32
                    n += 1
                    break
        rej2 = validate_traces(ctx, bad, keys, 'selftest-corrupted-traces')
        if n == 0 or len(rej2) < n:
            raise core.Machinery('selftest: %d corrupted traces, only %d rejected' % (n, len(rej2)))
        ctx.notes.append('selftest: %d/%d corrupted executor traces rejected' % (len(rej2), n))


def run(ctx, replay=None, selftest=False):
    import numpy as np
    for m in ('Cyclo', 'GridLib', 'Dft'):
        core.sany(m)
    if replay:
        blob = json.load(open(replay))
        rec = blob['record']
        c, d = D.dft_cfg('axis', [2], [2], [(1, 1)], [(0, 1)], invs=D.LAWS_AXIS)
        ctx.tlc('Dft', c, defs=d, name='replay-smoke', emit=False)
        if 'kind' in rec:
            {'pairs': replay_pair, 'keys': replay_pair, 'fft': replay_fft, 'fixed': replay_fixed}[rec['kind']](rec, ctx, np)
        else:
            raise core.Machinery('executor histories are replayed by the full check (they need the key tables)')
        return
    M = MENU[ctx.tier]
    # laws of one axis, all configurations, 16 workers
    c, d = D.dft_cfg('axis', M['Ns'], M['Ms'], M['Qs'], M['Ss'], invs=D.LAWS_AXIS)
    ctx.tlc('Dft', c, defs=d, name='axis-laws', emit=False, require_actions=('Compute',))
    # vacuity guard: the pinned chirp-Z index arithmetic must violate CztLaw
    c, d = D.dft_cfg('axis', range(1, 5), range(1, 5), [(1, 1)], [(0, 1)], invs=('CztLaw',), pinned=True)
    ctx.tlc('Dft', c, defs=d, name='axis-pinned-czt', emit=False, must_hold=False, count=False)
    # FFT route laws
    F = FFT_MENU[ctx.tier]
    c, d = D.dft_cfg('fft', F['Ns'], [1], F['Qs'], [(0, 1)], invs=('FftLaw', 'ConjLaw', 'TransposeLaw'))
    ctx.tlc('Dft', c, defs=d, name='fft-laws', emit=False)
    st = {} if selftest else None
    # 2-D pairs
    pair_menu = M if ctx.tier == 'quick' else dict(M, Ns=range(1, 8), Ms=range(1, 9))
    recs = D.emit_partitioned(ctx, 'pairs', 'pairs', pair_menu['Ns'], pair_menu['Ms'], pair_menu['Qs'], pair_menu['Ss'], partners=PARTNERS)
    seen = set()
    for rec in recs:
        key = json.dumps([rec['row'], rec['col'], rec['dir']], sort_keys=True)
        if key in seen:
            continue
        seen.add(key)
        replay_pair(rec, ctx, np, st)
    ctx.sample({'kind': 'pair', 'row': recs[0]['row'], 'col': recs[0]['col'], 'dir': recs[0]['dir'], 'rowE': recs[0]['rowE'], 'rowL': recs[0]['rowL']})
    recs = D.emit_partitioned(ctx, 'fft', 'fft', F['Ns'], [1], F['Qs'], [(0, 1)])
    for rec in recs:
        replay_fft(rec, ctx, np)
    X = FIXED_MENU[ctx.tier]
    recs = D.emit_partitioned(ctx, 'fixed', 'fixed', X['Ns'], X['Ms'], [(1, 1)], X['Ss'], nqs=X['NQs'])
    for rec in recs:
        replay_fixed(rec, ctx, np)
    ctx.sample({'kind': 'fixed', 'row': recs[-1]['row'], 'col': recs[-1]['col'], 'nQ': recs[-1]['req'], 'dir': recs[-1]['dir']})
    if st is not None and not st.get('done'):
        raise core.Machinery('selftest did not run')
    run_executors(ctx, np, selftest=selftest)
    ctx.bounds = {'axis': {k: list(v) for k, v in M.items()}, 'fft': {k: list(v) for k, v in F.items()},
                  'fixed': {k: list(v) for k, v in X.items()}, 'partners': PARTNERS}
    ctx.assumptions += ['inputs are Gaussian-integer fields with all samples distinct; exact kernels evaluated in double precision with exact argument reduction',
                        'shifted configurations are compared in modulus only (the property allows a pure phase)',
                        'accuracy class of an executor result: 64 if relative error < 2e-10, 32 if < 1e-3, else wrong']

"""C13 -- PSD is power-normalised and band-limited RMS adds up.  Spec: Psd.tla (exact integer |FFT|^2 on cyclotomic orders
dividing 4 or 6, frequency axes from GridLib, half-open band predicate, explicit trapezoid weights; Parseval, DC position,
additivity over adjacent bands, monotonicity, full-band bound).  Binding: replay into interferogram.psd / bandlimited_rms
(frequencies and periods), Interferogram.psd / bandlimited_rms / total_integrated_scatter, render_synthetic_surface /
Interferogram.render_from_psd (requested RMS over the valid samples)."""
import json
import math
import warnings
from fractions import Fraction

from . import core, dftlib as D

PROP = 'C13'
SHAPES = {'quick': [(1, 1), (2, 2), (3, 3), (4, 4), (2, 3), (3, 2), (4, 2), (1, 6), (6, 3), (3, 6)],
          'thorough': [(1, 1), (1, 2), (2, 1), (2, 2), (3, 3), (4, 4), (6, 6), (2, 3), (3, 2), (4, 2), (2, 4), (1, 6), (6, 1), (6, 3), (3, 6), (6, 2), (4, 1)]}
EDGES = [(0, 1), (1, 4), (1, 3), (1, 2), (2, 3), (1, 1), (3, 2)]
LAWS = ('Parseval', 'DcAtOrigin', 'Hermitian', 'Additive', 'Monotone', 'FullBand', 'Homogeneous')


def cfg(shapes, emit):
    c = 'INIT Init\nNEXT Next\nCHECK_DEADLOCK FALSE\nCONSTANTS\n EmitOn = %s\n' % ('TRUE' if emit else 'FALSE')
    c += 'INVARIANT Emit\n' if emit else ''.join('INVARIANT %s\n' % i for i in LAWS)
    d = dict(Shapes=D.tup(shapes), Dxs=D.tup([(1, 2), (1, 1), (2, 1)]), Edges=D.tup(EDGES), WindowKinds='{"ones", "taper", "user"}')
    return c, d


def par(shape):
    return '%s%s%s' % ('o' if shape[0] % 2 else 'e', 'o' if shape[1] % 2 else 'e', '' if shape[0] == shape[1] else ':nonsq')


def replay(rec, ctx, np):
    from prysm import interferogram as I
    shape = tuple(rec['shape'])
    r_, c_ = shape
    dx = rec['dx'][0] / rec['dx'][1]
    h = np.array(rec['h'], dtype=float).reshape(shape)
    w = np.array(rec['w'], dtype=float).reshape(shape)
    s2 = rec['s2']
    want = np.array(rec['twofsq'], dtype=float).reshape(shape) / 2.0 / (s2 / dx / dx)
    ky, kx = np.array(rec['ky'], dtype=float), np.array(rec['kx'], dtype=float)
    fails = []
    cls = par(shape)
    try:
        ux, uy, p = I.psd(h.copy(), dx, window=w.copy())
        ux, uy = np.asarray(ux), np.asarray(uy)
        if p.shape != shape or core.maxabs(p - want) > 1e-9 * (1 + core.maxabs(want)):
            kind = 'dc-position' if p.shape == shape and abs(p.max() - want.max()) < 1e-9 * (1 + want.max()) and np.argmax(p) != np.argmax(want) else 'value'
            fails.append(('psd:%s:%s' % (kind, cls), 'window=%s: psd %s want %s' % (rec['window'], np.round(p, 6).tolist(), np.round(want, 6).tolist())))
        fx = np.broadcast_to(ux, shape) if ux.ndim == 2 else np.broadcast_to(ux[None, :], shape)
        fy = np.broadcast_to(uy, shape) if uy.ndim == 2 else np.broadcast_to(uy[:, None], shape)
        wx = np.broadcast_to((kx / (c_ * dx))[None, :], shape)
        wy = np.broadcast_to((ky / (r_ * dx))[:, None], shape)
        if core.maxabs(fx - wx) > 1e-12 or core.maxabs(fy - wy) > 1e-12:
            fails.append(('psd:frequency-axes:%s' % cls, 'fx %s fy %s want %s %s' % (fx[0].tolist(), fy[:, 0].tolist(), wx[0].tolist(), wy[:, 0].tolist())))
        # Parseval on the implementation's own output
        df2 = 1.0 / (r_ * dx) / (c_ * dx)
        if abs(p.sum() * df2 - ((h * w) ** 2).sum() / s2) > 1e-9 * (1 + ((h * w) ** 2).sum() / s2):
            fails.append(('psd:parseval:%s' % cls, 'integral %r, window-weighted mean square %r' % (float(p.sum() * df2), float(((h * w) ** 2).sum() / s2))))
        # band-limited RMS from the SPECIFIED psd and frequency grid (so that a psd error does not masquerade as a band error)
        rr = np.hypot(wx, wy)
        edges = [Fraction(e[0], e[1]) if e != [0, 0] else None for e in rec['edges']]
        den = 8.0 * s2 * r_ * c_
        vals = {}
        for a, lo in enumerate(edges):
            for b, hi in enumerate(edges):
                b8 = rec['band8'][a][b]
                if b8 < 0 or lo is None:
                    continue
                wantv = math.sqrt(max(b8, 0) / den)
                with warnings.catch_warnings():
                    warnings.simplefilter('ignore')
                    if hi is None:
                        got = I.bandlimited_rms(rr, want.copy(), flow=float(lo), fhigh=None)
                    else:
                        got = I.bandlimited_rms(rr, want.copy(), flow=float(lo), fhigh=float(hi))
                    vals[(a, b)] = float(got)
                    if abs(float(got) - wantv) > 1e-9 * (1 + wantv):
                        on_edge = any(abs(x - float(e_)) < 1e-12 for x in np.unique(rr) for e_ in (lo, hi) if e_ is not None)
                        fails.append(('bandlimited_rms:value:%s%s' % (cls, ':sample-on-edge' if on_edge else ''), 'band [%s, %s): got %r want %r' % (lo, hi, float(got), wantv)))
                    if lo > 0 and hi is not None:
                        gp = I.bandlimited_rms(rr, want.copy(), wllow=float(1 / hi), wlhigh=float(1 / lo))
                        if abs(float(gp) - float(got)) > 1e-9 * (1 + wantv):
                            fails.append(('bandlimited_rms:periods:%s' % cls, 'band given as periods differs: %r vs %r' % (float(gp), float(got))))
        # additivity and monotonicity on the implementation's own numbers
        n = len(edges)
        for a in range(n):
            for b in range(a + 1, n):
                for c2 in range(b + 1, n):
                    if (a, b) in vals and (b, c2) in vals and (a, c2) in vals:
                        if abs(vals[(a, b)] ** 2 + vals[(b, c2)] ** 2 - vals[(a, c2)] ** 2) > 1e-9 * (1 + vals[(a, c2)] ** 2):
                            fails.append(('bandlimited_rms:additive:%s' % cls, 'bands %s|%s|%s: %r^2 + %r^2 != %r^2' % (edges[a], edges[b], edges[c2], vals[(a, b)], vals[(b, c2)], vals[(a, c2)])))
                        if vals[(a, b)] > vals[(a, c2)] + 1e-12 or vals[(b, c2)] > vals[(a, c2)] + 1e-12:
                            fails.append(('bandlimited_rms:monotone:%s' % cls, 'widening the band lowered the RMS'))
        # object form (the automatic window is data dependent and degenerate on tiny maps: compared on maps of 3x3 and more
        # whose automatic window is finite)
        ig = I.Interferogram(h.copy(), dx=dx)
        pp = ig.psd()
        auto = I.psd(h.copy(), dx)[2]
        if pp.data.shape != shape or (np.isfinite(auto).all() and core.maxabs(np.asarray(pp.data) - auto) > 1e-12 * (1 + core.maxabs(auto))):
            fails.append(('Interferogram.psd:%s' % cls, 'object form differs from the function'))
        if c_ > 1 and abs(float(np.asarray(pp.dx).ravel()[0]) - 1.0 / (c_ * dx)) > 1e-12 or np.asarray(pp.dx).size != 1:
            fails.append(('Interferogram.psd:dx:%s' % cls, 'PSD object reports dx=%s, the frequency step along x is %r' % (np.asarray(pp.dx).tolist(), 1.0 / (c_ * dx))))
        if min(shape) >= 3 and np.isfinite(auto).all():
            rr2 = np.asarray(pp.r)
            if rr2.shape != shape or core.maxabs(rr2 - rr) > 1e-9:
                fails.append(('Interferogram.psd:r:%s' % cls, 'radial frequency grid of the PSD object is not hypot(fx, fy)'))
            with warnings.catch_warnings():
                warnings.simplefilter('ignore')
                full = float(ig.bandlimited_rms(flow=0, fhigh=None))
                ref = float(I.bandlimited_rms(rr, auto.copy(), flow=0, fhigh=None))
                tis = float(ig.total_integrated_scatter(0.6328, 0))
            if abs(full - ref) > 1e-9 * (1 + ref):
                fails.append(('Interferogram.bandlimited_rms:%s' % cls, 'object %r function %r' % (full, ref)))
            if not (0 <= tis <= 1):
                fails.append(('Interferogram.total_integrated_scatter:%s' % cls, 'TIS %r outside [0, 1]' % tis))
            # history: the PSD of an interferogram is that of its CURRENT data (Homogeneous: doubling the map in place
            # quadruples the PSD and doubles the band-limited RMS)
            ig.data *= 2
            pp2 = ig.psd()
            with warnings.catch_warnings():
                warnings.simplefilter('ignore')
                full2 = float(ig.bandlimited_rms(flow=0, fhigh=None))
            if core.maxabs(np.asarray(pp2.data) - 4 * auto) > 1e-11 * (1 + core.maxabs(auto)) or abs(full2 - 2 * ref) > 1e-9 * (1 + ref):
                fails.append(('Interferogram.psd:after-in-place-change:%s' % cls, 'after data *= 2 the PSD is not 4x the earlier one (band-limited rms %r, was %r)' % (full2, ref)))
    except Exception as ex:
        import traceback
        site = next((f.name for f in reversed(traceback.extract_tb(ex.__traceback__)) if '/prysm/' in f.filename), None)
        if site is None:
            raise
        fails.append(('%s:raised:%s' % (site, cls), '%s: %s' % (type(ex).__name__, ex)))
    ctx.replayed(1, key=(shape, tuple(rec['dx']), rec['window']))
    seen = set()
    for k, m in fails:
        if k in seen:
            continue
        seen.add(k)
        ctx.fail('Psd:%s' % k, 'shape=%s dx=%s window=%s: %s' % (shape, rec['dx'], rec['window'], m[:500]), rec)


def replay_synth(ctx, np):
    """A surface synthesised with a requested RMS has exactly that RMS over its valid samples."""
    from prysm import interferogram as I
    from prysm.util import rms
    rng_state = np.random.get_state()
    np.random.seed(ctx.seed + 5)
    try:
        for samples in (8, 9, 16, 15):
            for target in (1.0, 0.25, 40.0):
                for maskkind in ('none', 'disc', 'ragged'):
                    mask = None
                    if maskkind != 'none':
                        yy, xx = np.mgrid[:samples, :samples]
                        mask = ((yy - samples // 2) ** 2 + (xx - samples // 2) ** 2 <= (samples // 2) ** 2) if maskkind == 'disc' else ((yy + 2 * xx) % 5 != 0)
                    for fcn, kw in ((I.abc_psd, dict(a=1e3, b=1 / 5, c=2.5)), (I.ab_psd, dict(a=10.0, b=2.0))):
                        try:
                            x, y, z = I.render_synthetic_surface(10.0, samples, rms=target, mask=mask, psd_fcn=fcn, **kw)
                            got = float(rms(z))
                            ok = abs(got - target) <= 1e-9 * target and z.shape == (samples, samples) and (mask is None or np.array_equal(np.isnan(z), ~mask.astype(bool)))
                            if not ok:
                                ctx.fail('Psd:render_synthetic_surface:rms:%s' % maskkind, 'samples=%d target=%g psd=%s: rms over valid samples %r' % (samples, target, fcn.__name__, got), {'samples': samples})
                        except Exception as ex:
                            ctx.fail('Psd:render_synthetic_surface:raised:%s' % maskkind, 'samples=%d: %s: %s' % (samples, type(ex).__name__, ex), {'samples': samples})
                        ctx.replayed(1, key=('synth', samples, target, maskkind, fcn.__name__))
            ig = I.Interferogram.render_from_psd(10.0, samples, rms=3.0, a=1e3, b=1 / 5, c=2.5)
            if abs(float(ig.rms) - 3.0) > 1e-9 * 3:
                ctx.fail('Psd:Interferogram.render_from_psd:rms', 'samples=%d: rms %r want 3.0' % (samples, float(ig.rms)), {'samples': samples})
            ctx.replayed(1, key=('render_from_psd', samples))
    finally:
        np.random.set_state(rng_state)


def run(ctx, replay_path=None, selftest=False, replay=None):
    import numpy as np
    replay_path = replay_path or replay
    for m in ('GridLib', 'Psd'):
        core.sany(m)
    fn = globals()['replay']
    if replay_path:
        rec = json.load(open(replay_path))['record']
        c, d = cfg([(2, 3)], False)
        ctx.tlc('Psd', c, defs=d, name='replay-smoke', emit=False)
        if 'twofsq' in rec:
            fn(rec, ctx, np)
        else:
            replay_synth(ctx, np)
        return
    S = SHAPES[ctx.tier]
    c, d = cfg(S, False)
    ctx.tlc('Psd', c, defs=d, name='psd-laws', emit=False, require_actions=('Compute',))
    c, d = cfg(S, True)
    r = ctx.tlc('Psd', c, defs=d, name='psd:emit', coverage=False, count=False)
    for rec in r.records:
        fn(rec, ctx, np)
    replay_synth(ctx, np)
    if selftest:
        rec = json.loads(json.dumps(next(x for x in r.records if x['shape'] == [3, 3] and x['window'] == 'user')))
        rec['twofsq'][1][1] += 8
        before = len(ctx.fails)
        fn(rec, ctx, np)
        if len(ctx.fails) == before:
            raise core.Machinery('selftest: corrupted exact spectrum not rejected')
        del ctx.fails[before:]
        ctx.notes.append('selftest: corrupted exact |F|^2 rejected')
    ctx.sample({k: r.records[4][k] for k in ('shape', 'dx', 'window', 'h', 'w', 's2', 'twofsq', 'edges')})
    ctx.bounds = {'shapes': S, 'edges': EDGES, 'windows': ['ones', 'taper', 'user (passed as arrays)'], 'dx': [(1, 2), (1, 1), (2, 1)]}
    ctx.assumptions += ['windows are passed as arrays (named Hann / Welch windows are irrational or data dependent and are conformed only through the array path)',
                        'bands are half-open [lo, hi), the top band keeps the largest frequency; numpy >= 2 is the installed runtime']

"""Core of the verification harness: TLC runner, emission parser, findings filter, evidence writer.

Exit codes of a check: 0 property held on everything explored, 1 violation (VIOLATION line printed),
2 machinery failure (spec does not parse, an in-model law failed, TLC crashed, vacuous action ...).
"""
import json
import os
import re
import shutil
import subprocess
import sys
import tempfile
import time
import traceback

VERIF = os.path.dirname(os.path.dirname(os.path.abspath(__file__)))
SPEC = os.path.join(VERIF, 'spec')
REPO = os.environ.get('PRYSM_REPO', '/repo')
JAR = '/opt/veriftools/tla/tla2tools.jar:/opt/veriftools/tla/CommunityModules-deps.jar'
NCPU = os.cpu_count() or 4


class Machinery(Exception):
    """The verification machinery itself failed (never a verdict about prysm)."""


def _java(extra_props=()):
    return ['java', '-XX:+UseParallelGC', '-Xss16m', *extra_props, '-cp', JAR]


def sany(module):
    p = subprocess.run(_java() + ['tla2sany.SANY', os.path.join(SPEC, module + '.tla')],
                       capture_output=True, text=True, cwd=SPEC)
    out = p.stdout + p.stderr
    if p.returncode != 0 or re.search(r'\*\*\* Errors|Semantic errors|Fatal error|Could not parse|Abort|Exception|Parse Error', out):
        raise Machinery('SANY failed on %s:\n%s' % (module, out[-3000:]))
    return True


_EMIT = re.compile(r'^<<"EMIT", (".*")>>$')
_PRINT = re.compile(r'^<<"([A-Z]+)", ([-\d, ]+)>>$')
_COV = re.compile(r'^<(\w+) line (\d+), col \d+ to line \d+, col \d+ of module (\w+)(?: \([\d ]+\))?>: (\d+):(\d+)')
_STATES = re.compile(r'^(\d+) states generated, (\d+) distinct states found')


class TlcResult:
    def __init__(self):
        self.records = []
        self.generated = 0
        self.distinct = 0
        self.depth = 0
        self.actions = {}
        self.ok = False
        self.violation = None
        self.output = ''
        self.wall = 0.0
        self.cmd = ''
        self.sim_files = []
        self.prints = []       # other <<"TAG", ...>> tuples printed by the spec


def tlc(module, cfg, **kw):
    """_tlc_once, retried when the JVM / TLC itself fails (not when it reports a verdict): a crashed run decides nothing, a
    completed run of the same deterministic model is the same whichever attempt produced it.  Every failed attempt is logged
    to evidence/machinery.log so that a recurring cause can be diagnosed."""
    last = None
    for attempt in range(3):
        try:
            return _tlc_once(module, cfg, **kw)
        except Machinery as ex:
            if 'timed out' in str(ex):
                raise
            last = ex
            try:
                os.makedirs(os.path.join(VERIF, 'evidence'), exist_ok=True)
                with open(os.path.join(VERIF, 'evidence', 'machinery.log'), 'a') as f:
                    f.write('---- %s attempt %d of %s\n%s\n' % (time.strftime('%Y-%m-%d %H:%M:%S'), attempt + 1, module, str(ex)[-6000:]))
            except OSError:
                pass
    raise last


def _tlc_once(module, cfg, workers=None, emit=True, simulate=None, timeout=1800, coverage=True,
              env=None, keep_dir=None, depth_first=False, extra=(), defs=None):
    """Run TLC on spec/<module>.tla with config text or file `cfg`.

    emit=True forces -workers 1 so that PrintT lines do not interleave.
    simulate: dict(num=, depth=, seed=, file=True) -> -simulate mode.
    """
    res = TlcResult()
    tmp = tempfile.mkdtemp(prefix='verif_tlc_')
    try:
        if '\n' in cfg or not cfg.endswith('.cfg'):
            cfgpath = os.path.join(tmp, module + '_gen.cfg')
            with open(cfgpath, 'w') as f:
                f.write(cfg)
        else:
            cfgpath = os.path.join(SPEC, cfg)
        if workers is None:
            workers = 1 if emit else NCPU
        root = os.path.join(SPEC, module + '.tla')
        props = ['-DTLA-Library=' + SPEC]
        if defs:
            # constants that a .cfg cannot express (tuples, records, sets of them) are defined in a
            # generated wrapper module and substituted with  `Name <- c_Name`
            mc = 'MC_' + module
            root = os.path.join(tmp, mc + '.tla')
            with open(root, 'w') as f:
                f.write('---- MODULE %s ----\nEXTENDS %s\n' % (mc, module))
                for k, v in defs.items():
                    f.write('c_%s == %s\n' % (k, v))
                f.write('====\n')
            with open(cfgpath) as f:
                txt = f.read()
            txt += '\nCONSTANTS\n'
            txt += ''.join('  %s <- c_%s\n' % (k, k) for k in defs)
            cfgpath = os.path.join(tmp, mc + '.cfg')
            with open(cfgpath, 'w') as f:
                f.write(txt)
        if depth_first:
            props.append('-Dtlc2.tool.queue.IStateQueue=StateDeque')
        # bound the heap: several single-worker emission JVMs run side by side and the default (1/4 of RAM each) invites the OOM killer
        props.append('-Xmx3g' if workers == 1 else '-Xmx12g')
        cmd = _java(props) + ['tlc2.TLC', '-workers', str(workers), '-metadir', os.path.join(tmp, 'meta'),
                              '-noGenerateSpecTE', '-config', cfgpath]
        if coverage and not simulate:
            cmd += ['-coverage', '1']
        if simulate:
            s = 'num=%d' % simulate['num']
            if simulate.get('file'):
                os.makedirs(os.path.join(tmp, 'sim'))
                s = 'file=%s,' % os.path.join(tmp, 'sim', 'tr') + s
            cmd += ['-simulate', s, '-depth', str(simulate.get('depth', 20)), '-seed', str(simulate.get('seed', 0))]
        cmd += list(extra)
        cmd.append(root)
        res.cmd = ' '.join(cmd)
        e = dict(os.environ)
        if env:
            e.update(env)
        t0 = time.time()
        try:
            p = subprocess.run(cmd, capture_output=True, text=True, cwd=SPEC, timeout=timeout, env=e)
        except subprocess.TimeoutExpired:
            raise Machinery('TLC timed out after %ss: %s' % (timeout, res.cmd))
        res.wall = time.time() - t0
        out = p.stdout
        res.output = out[-20000:] + p.stderr[-4000:]
        other = []
        for line in out.splitlines():
            m = _EMIT.match(line)
            if m:
                try:
                    res.records.append(json.loads(json.loads(m.group(1))))
                except Exception as ex:
                    raise Machinery('cannot parse emitted record: %r (%s)' % (line[:300], ex))
                continue
            m = _PRINT.match(line)
            if m:
                res.prints.append((m.group(1), [int(x) for x in re.findall(r'-?\d+', m.group(2))]))
                continue
            other.append(line)
            m = _STATES.match(line)
            if m:
                res.generated, res.distinct = int(m.group(1)), int(m.group(2))
                continue
            m = _COV.match(line)
            if m:
                name = m.group(1)
                res.actions[name] = res.actions.get(name, 0) + int(m.group(5))
                continue
            m = re.match(r'^The depth of the complete state graph search is (\d+)', line)
            if m:
                res.depth = int(m.group(1))
        text = '\n'.join(other)
        res.output = text[-20000:] + p.stderr[-4000:]
        if simulate:
            m = re.search(r'Progress: (\d+) states checked, (\d+) traces generated', text)
            if m:
                res.generated = res.distinct = int(m.group(1))
            if simulate.get('file'):
                d = os.path.join(tmp, 'sim')
                for fn in sorted(os.listdir(d)):
                    with open(os.path.join(d, fn)) as f:
                        res.sim_files.append(f.read())
        if 'Invariant' in text and 'is violated' in text or 'Action property' in text and 'is violated' in text \
                or 'Temporal properties were violated' in text or 'violated' in text and 'Error:' in text:
            res.violation = text[-6000:]
        elif p.returncode != 0 and not (simulate and p.returncode in (0,)):
            if 'Model checking completed. No error has been found' not in text and \
               not (simulate and 'traces generated' in text and 'Error' not in text):
                raise Machinery('TLC failed (rc=%d): %s\n%s' % (p.returncode, res.cmd, res.output[-5000:]))
        res.ok = res.violation is None
        return res
    finally:
        if keep_dir:
            shutil.copytree(tmp, keep_dir, dirs_exist_ok=True)
        shutil.rmtree(tmp, ignore_errors=True)


def maxabs(x):
    """max |x| that does not let NaN slip through a `> tolerance` test: any NaN (or an empty comparison) counts as infinite."""
    import numpy as np
    a = np.abs(np.asarray(x))
    if a.size == 0:
        return 0.0
    if np.isnan(a).any():
        return float('inf')
    return float(a.max())


def parallel(thunks, background=False, max_workers=None):
    """Run thunks concurrently (each typically one single-worker TLC emission run).  With background=True
    returns a function that waits for and returns the results, so that multi-worker runs can proceed meanwhile."""
    from concurrent.futures import ThreadPoolExecutor
    ex = ThreadPoolExecutor(max_workers=max_workers or max(1, NCPU // 2))
    futs = [ex.submit(t) for t in thunks]

    def wait():
        try:
            return [f.result() for f in futs]
        finally:
            ex.shutdown(wait=False)
    return wait if background else wait()


# ---------------------------------------------------------------------------------------------

def load_findings():
    path = os.path.join(VERIF, 'known_findings.jsonl')
    out = []
    if os.path.exists(path):
        for line in open(path):
            line = line.strip()
            if line and not line.startswith('#'):
                out.append(json.loads(line))
    return out


class Ctx:
    """Accumulates what one check run covered and found."""

    def __init__(self, prop, tier, seed):
        self.prop = prop
        self.tier = tier
        self.seed = seed
        self.t0 = time.time()
        self.states = 0
        self.transitions = 0
        self.traces = 0
        self.evals = 0
        self.samples = []
        self.actions = {}
        self.tlc_runs = []
        self.fails = []          # (signature, detail, replay_record)
        self.notes = []
        self.assumptions = []
        self.exhaustive = True
        self.bounds = {}
        self.distinct_keys = set()
        self.write_evidence = True

    # -- model side ------------------------------------------------------------------------
    def tlc(self, module, cfg, name=None, must_hold=True, require_actions=(), count=True, **kw):
        r = tlc(module, cfg, **kw)
        if must_hold and r.violation and not kw.get('simulate') and kw.get('workers') != 1 and kw.get('emit') is False:
            # a verdict of a multi-worker run that a single-worker run of the same deterministic model does not reproduce is a
            # tool fault, not a verdict: confirm before failing (the first report is logged for diagnosis)
            try:
                with open(os.path.join(VERIF, 'evidence', 'machinery.log'), 'a') as f:
                    f.write('---- %s unconfirmed in-model violation in %s, re-running with one worker\n%s\n' % (time.strftime('%Y-%m-%d %H:%M:%S'), name or module, r.violation[-6000:]))
            except OSError:
                pass
            r = tlc(module, cfg, **dict(kw, workers=1))
        if count:
            self.states += r.distinct
            self.transitions += r.generated
        tag = name or module
        for a, c in r.actions.items():
            self.actions[tag + '.' + a] = self.actions.get(tag + '.' + a, 0) + c
        self.tlc_runs.append({'name': tag, 'module': module, 'distinct': r.distinct, 'generated': r.generated,
                              'depth': r.depth, 'records': len(r.records), 'wall_s': round(r.wall, 2),
                              'simulate': bool(kw.get('simulate'))})
        if kw.get('simulate'):
            self.exhaustive = self.exhaustive  # simulation adds to, never replaces, exhaustive runs
        if must_hold and r.violation:
            raise Machinery('in-model law violated in %s (specification bug, not a verdict on prysm):\n%s'
                            % (tag, r.violation))
        if not must_hold and not r.violation and not kw.get('simulate'):
            r = tlc(module, cfg, **dict(kw, workers=1))       # confirm with one worker before declaring the guard vacuous
        if not must_hold and not r.violation:
            raise Machinery('vacuity guard: %s was expected to VIOLATE its invariant (pinned/buggy variant) but held' % tag)
        for a in require_actions:
            if r.actions.get(a, 0) == 0:
                raise Machinery('vacuity: action %s of %s never taken' % (a, tag))
        return r

    # -- implementation side ---------------------------------------------------------------
    def replayed(self, n=1, key=None):
        self.traces += n
        self.evals += n
        if key is not None:
            self.distinct_keys.add(key)

    def sample(self, s, cap=4):
        if len(self.samples) < cap:
            self.samples.append(s)

    def fail(self, signature, detail, record=None):
        self.fails.append((signature, detail, record))

    # -- end -------------------------------------------------------------------------------
    def finish(self):
        findings = load_findings()
        known = {f['signature']: f for f in findings if f.get('status') == 'finding' and f.get('property') == self.prop}
        viol = []
        seen_known = {}
        for sig, detail, rec in self.fails:
            if sig in known:
                seen_known.setdefault(sig, detail)
            else:
                viol.append((sig, detail, rec))
        for sig, detail in seen_known.items():
            print('KNOWN-FINDING: property=%s %s -- %s' % (self.prop, sig, known[sig].get('what', '')))
        rdir = os.path.join(VERIF, 'evidence', 'replay')
        printed = {}
        if viol:
            os.makedirs(rdir, exist_ok=True)
        for sig, detail, rec in viol:
            if sig in printed:
                printed[sig][1] += 1
                continue
            safe = re.sub(r'[^A-Za-z0-9_.=-]+', '_', sig)[:120]
            path = os.path.join(rdir, '%s_%s.json' % (self.prop, safe))
            with open(path, 'w') as f:
                json.dump({'property': self.prop, 'signature': sig, 'detail': detail, 'record': rec}, f, indent=1, default=str)
            printed[sig] = [path, 1, detail]
        for sig, (path, n, detail) in printed.items():
            print('VIOLATION property=%s replay=%s' % (self.prop, path))
            print('  signature=%s count=%d detail=%s' % (sig, n, str(detail)[:400]))
        ev = {
            'property_id': self.prop, 'tier': self.tier, 'seed': int(self.seed), 'level': 'model_checking',
            'coverage': {
                'states': int(self.states), 'transitions': int(self.transitions),
                'traces_validated_against_impl': int(self.traces),
                'samples': self.samples or [{'note': 'no sample recorded'}],
                'evaluations': int(self.evals),
                'distinct_nontrivial': len(self.distinct_keys),
                'rule': 'one evaluation = one TLC-generated behaviour (or recorded implementation trace) replayed into / '
                        'validated against the real prysm code; distinct = distinct abstract configurations',
                'exhaustive': bool(self.exhaustive),
                'actions': self.actions, 'tlc_runs': self.tlc_runs, 'bounds': self.bounds,
                'known_findings_seen': sorted(seen_known), 'notes': self.notes,
            },
            'assumptions': self.assumptions,
            'wall_s': round(time.time() - self.t0, 2),
            'violations': len(printed),
        }
        if self.write_evidence:
            os.makedirs(os.path.join(VERIF, 'evidence'), exist_ok=True)
            with open(os.path.join(VERIF, 'evidence', self.prop + '.json'), 'w') as f:
                json.dump(ev, f, indent=1, default=str)
        if self.states < 1 or self.transitions < 1:
            raise Machinery('no states explored')
        print('%s tier=%s: %d states, %d behaviours bound to prysm, %d known finding(s), %d violation signature(s), %.1fs'
              % (self.prop, self.tier, self.states, self.traces, len(seen_known), len(printed), time.time() - self.t0))
        return 1 if printed else 0


def validate_traces(ctx, module, traces, cfg, defs, name, chunk=4000):
    """Batch trace validation: `traces` is a JSON-serialisable list; the trace module reads it from IOEnv.TRACE_FILE,
    picks a trace id in its initial predicate and prints <<"ACCEPT", tid>> / <<"AT", tid, l>>.  Returns the list of
    (index, furthest event reached) of REJECTED traces."""
    rejected = []
    for base in range(0, len(traces), chunk):
        part = traces[base:base + chunk]
        fd, path = tempfile.mkstemp(prefix='verif_trace_', suffix='.json')
        try:
            with os.fdopen(fd, 'w') as fh:
                json.dump(part, fh)
            r = ctx.tlc(module, cfg, defs=defs, name=name, env={'TRACE_FILE': path}, coverage=False, count=True)
            acc = {v[0] for t, v in r.prints if t == 'ACCEPT'}
            reach = {}
            for t, v in r.prints:
                if t == 'AT':
                    reach[v[0]] = max(reach.get(v[0], 0), v[1])
            rejected += [(base + tid - 1, reach.get(tid, 0)) for tid in range(1, len(part) + 1) if tid not in acc]
        finally:
            os.unlink(path)
    return rejected


def prysm_env():
    """Make `import prysm` resolve to /repo's working tree."""
    if REPO not in sys.path:
        sys.path.insert(0, REPO)
    os.environ.setdefault('PRYSM_VERIF', '1')


def main_check(prop, run, argv):
    """Common CLI for one property: --tier quick|thorough, --replay path, --selftest."""
    import argparse
    ap = argparse.ArgumentParser()
    ap.add_argument('--tier', default=os.environ.get('VERIF_TIER', 'quick'))
    ap.add_argument('--replay')
    ap.add_argument('--selftest', action='store_true')
    a = ap.parse_args(argv)
    seed = int(os.environ.get('VERIF_SEED', '0') or 0)
    ctx = Ctx(prop, a.tier, seed)
    if a.replay:
        ctx.write_evidence = False      # a replay re-examines one recorded case; it is not a coverage run
    else:
        rdir = os.path.join(VERIF, 'evidence', 'replay')
        if os.path.isdir(rdir):
            for fn in os.listdir(rdir):
                if fn.startswith(prop + '_'):
                    os.unlink(os.path.join(rdir, fn))
    try:
        prysm_env()
        run(ctx, replay=a.replay, selftest=a.selftest)
        return ctx.finish()
    except Machinery as e:
        print('MACHINERY-FAILURE property=%s: %s' % (prop, e))
        try:
            with open(os.path.join(VERIF, 'evidence', 'machinery.log'), 'a') as f:
                f.write('==== %s %s exit 2\n%s\n' % (time.strftime('%Y-%m-%d %H:%M:%S'), prop, str(e)[-6000:]))
        except OSError:
            pass
        return 2
    except Exception:
        print('MACHINERY-FAILURE property=%s: unexpected exception' % prop)
        traceback.print_exc()
        return 2

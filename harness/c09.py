"""C09 -- derivative functions are the derivatives of the functions they name.

Specs: OrthoPoly.tla (formal derivatives of the closed-form coefficient lists), QPoly.tla (Gram-Schmidt Qbfs / 2D-Q with
their derivatives in u and, through the phi-basis coefficients, derivatives of any order in x = u^2), Clenshaw.tla (the
derivative-table recurrence as an algorithm machine; law: al[jj][0] = jj-th formal derivative of the explicit sum; the
pinned seed must violate it).  Binding: *_der functions, zernike_nm_der, the Clenshaw derivative tables' documented
entries, and the sag-and-slope evaluators compute_z_zprime_Qbfs / _Qcon / _Q2d against the exact derivatives."""
import json
import math
from fractions import Fraction

from . import core, dftlib as D, modq, polylib as PL, qpolylib as QL

PROP = 'C09'
THETAS = [0.0, 0.35, 1.2, -2.0]
SVECS = [(2,), (1, -1), (0, 3), (1, 2, -1), (0, 0, 2), (3, 0, -2, 1), (1, -1, 2, 0, 3)]
CL_PARAMS = {'quick': [((0, 1), (0, 1)), ((1, 1), (4, 1)), ((-1, 2), (1, 2)), ((0, 1), (4, 1)), ((-1, 4), (-3, 4))],
             'thorough': [((0, 1), (0, 1)), ((1, 1), (4, 1)), ((-1, 2), (1, 2)), ((0, 1), (4, 1)), ((-1, 2), (-1, 2)), ((3, 2), (0, 1)), ((-1, 4), (-3, 4))]}
CL_XS = [(-1, 2), (1, 3), (1, 1), (-7, 8)]


def seqs(vs):
    return '{%s}' % ', '.join('<<%s>>' % ', '.join(map(str, v)) for v in vs)


def cl_cfg(emit, tier, seed='jj', maxj=3, svecs=SVECS):
    c = 'INIT Init\nNEXT Next\nCHECK_DEADLOCK FALSE\nCONSTANTS\n MaxJ = %d\n SeedWith = "%s"\n EmitOn = %s\n' % (maxj, seed, 'TRUE' if emit else 'FALSE')
    c += 'INVARIANT Emit\n' if emit else 'INVARIANT ClenshawLaw\n'
    return c, dict(Params='{%s}' % ', '.join('<<<<%d, %d>>, <<%d, %d>>>>' % (a + b) for a, b in CL_PARAMS[tier]), Svecs=seqs(svecs), Xs=D.tup(CL_XS))


def der_fn(P, e):
    fam, n, a, b = e['fam'], e['n'], float(e['a']), float(e['b'])
    if fam == 'jacobi':
        return lambda x: P.jacobi_der(n, a, b, x)
    if fam == 'laguerre':
        return lambda x: P.laguerre_der(n, a, x)
    if fam in ('legendre', 'cheby1', 'cheby2', 'cheby3', 'cheby4', 'hermite_He', 'hermite_H'):
        return lambda x: getattr(P, fam + '_der')(n, x)
    return None


def replay_der(rec, ctx, np, P):
    e = PL.decode(rec)
    fam, n = e['fam'], e['n']
    xs = np.array([float(p) for p in e['pts']])
    val = np.array([float(v) for v in e['vals']])
    der = np.array([float(v) for v in e['ders']])
    tol = 2e-10 * (1 + core.maxabs(der)) * (1 + n)
    fails = []
    try:
        fn = der_fn(P, e)
        if fn is not None:
            for form, x, w in (('1-D', xs.copy(), der), ('2-D', np.stack([xs, xs[::-1]]), np.stack([der, der[::-1]]))):
                got = np.asarray(fn(x), dtype=float)
                if got.shape != w.shape or core.maxabs(got - w) > tol:
                    kind = 'sign' if got.shape == w.shape and core.maxabs(got + w) <= tol and core.maxabs(w) > 0 else 'value'
                    fails.append(('%s_der:%s:%s' % (fam, kind, PL.order_cls(n)), '%s n=%d %s: got %s want %s' % (fam, n, form, np.round(np.ravel(got), 8).tolist()[:6], np.round(np.ravel(w), 8).tolist()[:6])))
                    break
        elif fam == 'zernike':
            m = int(e['a'])
            norm = math.sqrt(2 * (n + 1) / (2 if m == 0 else 1))
            for sgn in ((1,) if m == 0 else (1, -1)):
                for th in THETAS:
                    az, daz = (1.0, 0.0) if m == 0 else ((math.cos(m * th), -m * math.sin(m * th)) if sgn > 0 else (math.sin(m * th), m * math.cos(m * th)))
                    for nrm in (True, False):
                        k = norm if nrm else 1.0
                        dr, dt = P.zernike_nm_der(n, sgn * m, xs.copy(), np.full_like(xs, th), norm=nrm)
                        if core.maxabs(dr - k * der * az) > tol * k:
                            fails.append(('zernike_nm_der:dr:%s' % ('m=0' if m == 0 else ('cos' if sgn > 0 else 'sin')), 'n=%d m=%d th=%g norm=%s: dr %s want %s' % (n, sgn * m, th, nrm, np.round(dr, 8).tolist(), np.round(k * der * az, 8).tolist())))
                        if core.maxabs(dt - k * val * daz) > tol * k * (1 + m):
                            fails.append(('zernike_nm_der:dt:%s' % ('m=0' if m == 0 else ('cos' if sgn > 0 else 'sin')), 'n=%d m=%d th=%g norm=%s: dt %s want %s' % (n, sgn * m, th, nrm, np.round(dt, 8).tolist(), np.round(k * val * daz, 8).tolist())))
                    if fails:
                        break
                if fails:
                    break
    except Exception as ex:
        fails.append(('%s_der:raised:%s' % (fam, PL.order_cls(n)), 'n=%d: %s: %s' % (n, type(ex).__name__, ex)))
    ctx.replayed(1, key=('der', fam, str(e['a']), str(e['b']), n))
    for kind, msg in fails[:3]:
        ctx.fail('Der:%s' % kind, msg[:600], rec)


_HELD = {}


def replay_clenshaw(rec, ctx, np, P):
    a, b = Fraction(*rec['a']), Fraction(*rec['b'])
    s = [float(v) for v in rec['s']]
    x = float(Fraction(*rec['x']))
    j = rec['j']
    top = [float(modq.to_fraction(v)) for v in rec['top']]
    scale = 1 + max(abs(t) for t in top)
    fails = []
    ln = 'len=1' if len(s) == 1 else ('len=2' if len(s) == 2 else 'len>=3')
    for xform, xx in (('0-D', np.array(x)), ('1-D', np.array([x, x]))):
        try:
            if j == 0:
                got = P.jacobi_sum_clenshaw(s, float(a), float(b), xx)
                if core.maxabs(np.asarray(got) - top[0]) > 1e-9 * scale:
                    fails.append(('jacobi_sum_clenshaw:value:%s' % ln, 'got %s want %r' % (np.asarray(got).tolist(), top[0])))
                # a result handed to the caller earlier must still be that sum after later calls (no shared scratch memory)
                for (old, oldwant, olds) in _HELD.get(xform, []):
                    if core.maxabs(np.asarray(old) - oldwant) > 1e-9 * (1 + abs(oldwant)):
                        fails.append(('jacobi_sum_clenshaw:retained-result-changed', 'the result returned earlier for s=%s now reads %s, it was %r' % (olds, np.asarray(old).tolist(), oldwant)))
                _HELD[xform] = (_HELD.get(xform, []) + [(got, top[0], rec['s'])])[-3:]
            else:
                al = P.jacobi_sum_clenshaw_der(s, float(a), float(b), xx, j=j)
                for jj in range(j + 1):
                    g = np.asarray(al[jj][0])
                    if core.maxabs(g - top[jj]) > 1e-9 * scale:
                        fails.append(('jacobi_sum_clenshaw_der:j=%s:row=%d:%s' % (j if j < 2 else '2+', jj, ln), 'alphas[%d][0] = %s, the %d-th derivative of the sum is %r' % (jj, g.tolist(), jj, top[jj])))
                        break
        except Exception as ex:
            fails.append(('jacobi_sum_clenshaw%s:raised:%s' % ('' if j == 0 else '_der', ln), '%s: %s' % (type(ex).__name__, ex)))
        if fails:
            break
    ctx.replayed(1, key=('clenshaw', str(a), str(b), tuple(rec['s']), tuple(rec['x']), j))
    for kind, msg in fails:
        ctx.fail('Der:%s' % kind, 'a=%s b=%s s=%s x=%s j=%d: %s' % (a, b, rec['s'], rec['x'], j, msg[:400]), rec)


def q_tables(qrecs):
    """(m -> n -> decoded record)"""
    T = {}
    for r in qrecs:
        e = QL.decode(r)
        T.setdefault(e['m'], {})[e['n']] = e
    return T


def replay_q_sums(T, ocon, ctx, np, P, svecs):
    """Explicit sums formed from the spec's exact per-mode values / derivatives vs the fast evaluators."""
    from prysm.polynomials import qpoly
    xs = np.array([float(p) for p in T[0][0]['pts']])
    inner = (xs >= 0) & (xs <= 1)          # the whole domain, vertex (u = 0) and edge (u = 1) included
    u = xs[inner]
    usq = u * u
    for cs in svecs:
        if len(cs) - 1 > max(T[0]):
            continue
        ln = 'len=1' if len(cs) == 1 else ('len=2' if len(cs) == 2 else 'len>=3')
        c = np.array(cs, dtype=float)
        # ---- Qbfs
        z = sum(c[n] * np.array(T[0][n]['vals'])[inner] for n in range(len(c)))
        dz = sum(c[n] * np.array(T[0][n]['ders'])[inner] for n in range(len(c)))
        qd = [sum(c[n] * np.array(T[0][n]['qders'][k])[inner] for n in range(len(c))) for k in range(4)]
        fails = []
        try:
            S, Sp = qpoly.compute_z_zprime_Qbfs(c.copy(), u.copy(), usq.copy())
            tol = 1e-8 * (1 + core.maxabs(dz))
            if core.maxabs(S - z) > tol:
                fails.append(('compute_z_zprime_Qbfs:z:%s' % ln, 'z %s want %s' % (np.round(S, 8).tolist(), np.round(z, 8).tolist())))
            if core.maxabs(Sp - dz) > tol:
                fails.append(('compute_z_zprime_Qbfs:zprime:%s' % ln, 'dz/du %s want %s' % (np.round(Sp, 8).tolist(), np.round(dz, 8).tolist())))
        except Exception as ex:
            fails.append(('compute_z_zprime_Qbfs:raised:%s' % ln, '%s: %s' % (type(ex).__name__, ex)))
        if len(cs) >= 2:
            for j in (1, 2, 3):
                try:
                    al = qpoly.clenshaw_qbfs_der(c.copy(), usq.copy(), j=j)
                    for jj in range(j + 1):
                        got = 2 * (al[jj][0] + al[jj][1])
                        if core.maxabs(got - qd[jj]) > 1e-8 * (1 + core.maxabs(qd[jj])):
                            fails.append(('clenshaw_qbfs_der:j=%s:row=%d:%s' % (j if j < 2 else '2+', jj, ln), '2(al[%d][0]+al[%d][1]) = %s, d^%d/dx^%d of the sum = %s' % (jj, jj, np.round(got, 7).tolist(), jj, jj, np.round(qd[jj], 7).tolist())))
                            break
                except Exception as ex:
                    fails.append(('clenshaw_qbfs_der:raised:j=%s:%s' % (j if j < 2 else '2+', ln), '%s: %s' % (type(ex).__name__, ex)))
        # ---- Qcon
        if ocon and len(cs) - 1 <= max(ocon):
            zc = sum(c[n] * np.array(ocon[n]['vals'])[inner_c(ocon)] for n in range(len(c)))
            dzc = sum(c[n] * np.array(ocon[n]['ders'])[inner_c(ocon)] for n in range(len(c)))
            uc = np.array([float(p) for p in ocon[0]['pts']])[inner_c(ocon)]
            try:
                S, Sp = qpoly.compute_z_zprime_Qcon(c.copy(), uc.copy(), uc * uc)
                tol = 1e-8 * (1 + core.maxabs(dzc))
                if core.maxabs(S - zc) > tol:
                    fails.append(('compute_z_zprime_Qcon:z:%s' % ln, 'z %s want %s' % (np.round(S, 8).tolist(), np.round(zc, 8).tolist())))
                if core.maxabs(Sp - dzc) > tol:
                    fails.append(('compute_z_zprime_Qcon:zprime:%s' % ln, 'dz/du %s want %s' % (np.round(Sp, 8).tolist(), np.round(dzc, 8).tolist())))
            except Exception as ex:
                fails.append(('compute_z_zprime_Qcon:raised:%s' % ln, '%s: %s' % (type(ex).__name__, ex)))
        ctx.replayed(1, key=('qsum', tuple(cs)))
        for kind, msg in fails:
            ctx.fail('Der:%s' % kind, 'coefs=%s: %s' % (list(cs), msg[:500]), {'coefs': list(cs)})
    # ---- 2D-Q: dense cosine and sine families for m = 1..mmax
    mmax = max(T)
    for cs in svecs:
        if len(cs) - 1 > max(T[0]) or len(cs) < 1:
            continue
        c = np.array(cs, dtype=float)
        ln = 'len=1' if len(cs) == 1 else ('len=2' if len(cs) == 2 else 'len>=3')
        for th, ragged in ((0.3, False), (-1.9, False), (0.7, True)):
            t = np.full_like(u, th)
            ams = [list(c * (1 + 0.5 * m)) for m in range(1, mmax + 1)]
            bms = [list(c[::-1] * (1 - 0.25 * m)) for m in range(1, mmax + 1)]
            if ragged:
                # ragged azimuthal support: a family that is present at one m is absent (an empty list) at the next
                ams = [v if m % 2 else [] for m, v in enumerate(ams, 1)]
                bms = [v if m % 2 == 0 or m == mmax else [] for m, v in enumerate(bms, 1)]
            z = sum(c[n] * np.array(T[0][n]['vals'])[inner] for n in range(len(c)))
            dr = sum(c[n] * np.array(T[0][n]['ders'])[inner] for n in range(len(c)))
            dt = np.zeros_like(u)
            for m in range(1, mmax + 1):
                for n in range(len(c)):
                    R = np.array(T[m][n]['vals'])[inner]
                    dR = np.array(T[m][n]['ders'])[inner]
                    ca = ams[m - 1][n] if ams[m - 1] else 0.0
                    cb = bms[m - 1][n] if bms[m - 1] else 0.0
                    z = z + R * (ca * math.cos(m * th) + cb * math.sin(m * th))
                    dr = dr + dR * (ca * math.cos(m * th) + cb * math.sin(m * th))
                    dt = dt + R * m * (-ca * math.sin(m * th) + cb * math.cos(m * th))
            fails = []
            try:
                gz, gdr, gdt = qpoly.compute_z_zprime_Q2d(list(c), ams, bms, u.copy(), t)
                tol = 1e-8 * (1 + core.maxabs(dr) + core.maxabs(dt))
                for nm, g, w in (('z', gz, z), ('dr', gdr, dr), ('dt', gdt, dt)):
                    if core.maxabs(g - w) > tol:
                        fails.append(('compute_z_zprime_Q2d:%s:%s' % (nm, ln), '%s = %s want %s' % (nm, np.round(g, 7).tolist(), np.round(w, 7).tolist())))
            except Exception as ex:
                fails.append(('compute_z_zprime_Q2d:raised:%s' % ln, '%s: %s' % (type(ex).__name__, ex)))
            ctx.replayed(1, key=('q2dsum', tuple(cs), th))
            ln_ = ln + (':ragged' if ragged else '')
            for kind, msg in fails:
                ctx.fail('Der:%s%s' % (kind, ':ragged' if ragged else ''), 'coefs=%s theta=%g%s: %s' % (list(cs), th, ' ragged a/b families' if ragged else '', msg[:500]), {'coefs': list(cs), 'theta': th})
        # clenshaw_q2d_der of any order, per azimuthal order
        for m in range(1, mmax + 1):
            N = len(c) - 1
            for j in (1, 2, 3):
                qd = [sum(c[n] * np.array(T[m][n]['qders'][k])[inner] for n in range(len(c))) for k in range(4)]
                try:
                    al = qpoly.clenshaw_q2d_der(list(c), m, usq.copy(), j=j)
                    for jj in range(j + 1):
                        got = 0.5 * al[jj][0]
                        if m == 1 and N > 2:
                            got = got - 2 / 5 * al[jj][3]
                        if core.maxabs(got - qd[jj]) > 1e-8 * (1 + core.maxabs(qd[jj])):
                            ctx.fail('Der:clenshaw_q2d_der:j=%s:row=%d:m=%s:%s' % (j if j < 2 else '2+', jj, m if m < 2 else '2+', ln),
                                     'coefs=%s m=%d j=%d: radial sum derivative %d: %s want %s' % (list(cs), m, j, jj, np.round(got, 7).tolist(), np.round(qd[jj], 7).tolist()), {'coefs': list(cs), 'm': m, 'j': j})
                            break
                except Exception as ex:
                    ctx.fail('Der:clenshaw_q2d_der:raised:%s' % ln, 'coefs=%s m=%d j=%d: %s: %s' % (list(cs), m, j, type(ex).__name__, ex), {'coefs': list(cs), 'm': m, 'j': j})
                ctx.replayed(1, key=('q2dder', tuple(cs), m, j))


def inner_c(ocon):
    import numpy as np
    xs = np.array([float(p) for p in ocon[0]['pts']])
    return (xs >= 0) & (xs <= 1)


def run(ctx, replay=None, selftest=False):
    import numpy as np
    import prysm.polynomials as P
    for m in ('Rat', 'ModQ', 'PolyDefs', 'OrthoPoly', 'QPoly', 'Clenshaw'):
        core.sany(m)
    quick = ctx.tier == 'quick'
    if replay:
        rec = json.load(open(replay))['record']
        c, d = cl_cfg(False, 'quick', svecs=[(1, 2)], maxj=1)
        ctx.tlc('Clenshaw', c, defs=d, name='replay-smoke', emit=False)
        if 'top' in rec:
            replay_clenshaw(rec, ctx, np, P)
        elif 'fam' in rec:
            replay_der(rec, ctx, np, P)
        else:
            raise core.Machinery('sum-evaluator cases are replayed by the full check (they combine several specification states)')
        return
    # A. *_der functions and zernike_nm_der against the formal derivatives
    recs = PL.run_spec(ctx, ctx.tier, 8 if quick else 16, name='orthopoly')
    for rec in recs:
        replay_der(rec, ctx, np, P)
    # B. Clenshaw derivative machine (Jacobi): laws, pinned seed variant, conformance of the documented table entries
    c, d = cl_cfg(False, ctx.tier)
    ctx.tlc('Clenshaw', c, defs=d, name='clenshaw-laws', emit=False, coverage=False)
    c, d = cl_cfg(False, 'quick', seed='j')
    ctx.tlc('Clenshaw', c, defs=d, name='clenshaw-pinned-seed', emit=False, must_hold=False, count=False)
    c, d = cl_cfg(True, ctx.tier)
    rc = ctx.tlc('Clenshaw', c, defs=d, name='clenshaw:emit', coverage=False, count=False)
    for rec in rc.records:
        replay_clenshaw(rec, ctx, np, P)
    # C/D. Forbes polynomials: Clenshaw derivative tables and sag-and-slope evaluators
    qrecs = QL.run_spec(ctx, ctx.tier)
    T = q_tables(qrecs)
    ocon = {}
    for rec in recs:
        if rec['fam'] == 'qcon':
            ocon[rec['n']] = PL.decode(rec)
            ocon[rec['n']]['vals'] = [float(v) for v in ocon[rec['n']]['vals']]
            ocon[rec['n']]['ders'] = [float(v) for v in ocon[rec['n']]['ders']]
    replay_q_sums(T, ocon, ctx, np, P, SVECS)
    if selftest:
        rec = json.loads(json.dumps(next(r for r in rc.records if r['j'] == 2 and len(r['s']) >= 3)))
        rec['top'][2] = modq.from_fraction(modq.to_fraction(rec['top'][2]) + 1)
        before = len(ctx.fails)
        replay_clenshaw(rec, ctx, np, P)
        if len(ctx.fails) == before:
            raise core.Machinery('selftest: corrupted second-derivative value not rejected')
        del ctx.fails[before:]
        ctx.notes.append('selftest: corrupted exact second derivative rejected')
    ctx.sample({'clenshaw': {k: rc.records[-1][k] for k in ('a', 'b', 's', 'x', 'j')}, 'exact_derivatives': [str(modq.to_fraction(v)) for v in rc.records[-1]['top']]})
    e = PL.decode(recs[3])
    ctx.sample({'fam': e['fam'], 'n': e['n'], 'points': [str(p) for p in e['pts']], 'exact_derivative_values': [str(v) for v in e['ders']]})
    ctx.bounds = {'orders': 8 if quick else 16, 'clenshaw': {'params': CL_PARAMS[ctx.tier], 'svecs': SVECS, 'xs': CL_XS, 'max_j': 3}, 'q': 'm<=3,n<=5' if quick else 'm<=5,n<=9'}
    ctx.assumptions += ['only the DOCUMENTED entries of the Clenshaw tables are compared (alphas[jj][0]; 2(alphas[jj][0]+alphas[jj][1]) for Qbfs; the radial-sum combination used by compute_z_zprime_Q2d for 2D-Q)',
                        'sag-and-slope evaluators are compared at rational points of [0, 1], vertex and edge included']

"""C18 -- segmented apertures tile exactly; mask primitives respect their geometry.  Specs: HexLib.tla (Z[sqrt 3], cube
coordinates), HexRing.tla (the hex_ring walk as a step machine, ids, exclusion), Aperture.tla (hexagonal and keystone
apertures, windows, OPD accumulation, mask primitives -- exact three-valued membership in / out / tie).
Binding: every TLC-emitted state is replayed into prysm.segmented / prysm.geometry; samples whose exact class is not `tie`
must agree."""
import itertools
import json
import math

from . import core

PROP = 'C18'
S3 = math.sqrt(3.0)


def q3(v):
    return v[0] + v[1] * S3


# ---------------------------------------------------------------------------------------------- menus
def tla_set(xs):
    return '{%s}' % ', '.join(xs)


def hex_cases(tier):
    shapes = [(20, 20), (21, 21), (20, 23)] if tier == 'quick' else [(20, 20), (21, 21), (20, 23), (25, 22), (17, 17)]
    geoms = [(2, 12, 2), (2, 14, 0), (3, 10, 3), (2, 6, 2)] if tier == 'quick' else [(2, 12, 2), (2, 14, 0), (3, 10, 3), (2, 6, 2), (3, 15, 1), (2, 9, 1), (1, 7, 0)]
    excl = [(), (0,), (1, 4), (0, 7, 18), (6,), (0, 6, 12)]
    out = []
    n = 0
    for (nr, nc), (dxu, d, s), rot, rings, ex in itertools.product(shapes, geoms, (90, 0), (0, 1, 2) if tier != 'quick' else (1, 2), excl):
        n += 1
        if tier == 'quick' and n % 5 != 1:
            continue
        if tier != 'quick' and n % 2 != 1:
            continue
        kept = [i for i in range(1 + 3 * rings * (rings + 1)) if i not in ex]
        if not kept:
            continue
        target = kept[len(kept) // 2]
        out.append('[nr |-> %d, nc |-> %d, dxu |-> %d, d |-> %d, s |-> %d, rot |-> %d, rings |-> %d, ex |-> {%s}, target |-> %d, opd |-> %s]'
                   % (nr, nc, dxu, d, s, rot, rings, ', '.join(map(str, ex)), target, 'TRUE' if rings <= 1 or n % 8 == 1 else 'FALSE'))
    return out


KEY_RINGS = [
    [(6, 6, 1, -1)], [(3, 5, 1, -1)], [(4, 4, 1, 0), (6, 4, 2, 1)], [(12, 5, 1, -1)], [(2, 5, 1, 3)], [(3, 4, 0, 2), (12, 3, 1, -1)], [(4, 6, 2, -1)], [(6, 3, 1, 2), (3, 3, 1, -1)],
]


def key_cases(tier):
    shapes = [(24, 24), (25, 25), (24, 27)] if tier == 'quick' else [(24, 24), (25, 25), (24, 27), (29, 26), (32, 32)]
    out = []
    n = 0
    for (nr, nc), rings, cd, ag, dxu in itertools.product(shapes, KEY_RINGS, (8, 10), (1, 2, 0), (2, 3)):
        n += 1
        if n % (6 if tier == 'quick' else 2) != 1 and not (ag == 0 and dxu == 2 and cd == 8 and (nr, nc) == shapes[0]):
            continue
        rr = '<<%s>>' % ', '.join('[n |-> %d, w |-> %d, g |-> %d, rot |-> %d]' % r for r in rings)
        out.append('[nr |-> %d, nc |-> %d, dxu |-> %d, cd |-> %d, rings |-> %s, ag |-> %d]' % (nr, nc, dxu, cd, rr, ag))
    return out


PRIM_DEFAULT = dict(k='circle', api='circle', c=(0, 0), r2=0, rin2=0, rout2=0, w2=0, h2=0, ang=(1, 0, 1), a2=0, b2=0, sides=3, r=0, rot=0, vanes=1, w=0)
ANGS = [((1, 0, 1), 0.0), ((0, 1, 1), 90.0), ((4, 3, 5), math.degrees(math.atan2(3, 4))), ((12, 5, 13), math.degrees(math.atan2(5, 12))), ((3, -4, 5), math.degrees(math.atan2(-4, 3)))]


def prim_rec(**kw):
    d = dict(PRIM_DEFAULT)
    d.update(kw)
    return '[k |-> "%s", api |-> "%s", c |-> <<%d, %d>>, r2 |-> %d, rin2 |-> %d, rout2 |-> %d, w2 |-> %d, h2 |-> %d, ang |-> <<%d, %d, %d>>, a2 |-> %d, b2 |-> %d, sides |-> %d, r |-> %d, rot |-> %d, vanes |-> %d, w |-> %d]' % (
        d['k'], d['api'], d['c'][0], d['c'][1], d['r2'], d['rin2'], d['rout2'], d['w2'], d['h2'], d['ang'][0], d['ang'][1], d['ang'][2], d['a2'], d['b2'], d['sides'], d['r'], d['rot'], d['vanes'], d['w'])


def prim_cases(tier):
    """(primitive, grown primitive, symmetry flags)"""
    prims = []
    for r2 in (7, 10, 13):
        prims.append((dict(k='circle', api='circle', r2=r2), dict(k='circle', api='circle', r2=r2 + 2), (True, True, True)))
    for c in ((3, -4), (0, 0), (-6, 2)):
        prims.append((dict(k='circle', api='offset_circle', r2=10, c=c), dict(k='circle', api='offset_circle', r2=13, c=c), (c == (0, 0),) * 3))
    for rin2, rout2 in ((6, 14), (5, 10), (0, 9)):
        prims.append((dict(k='annulus', api='annulus', rin2=rin2, rout2=rout2), dict(k='annulus', api='annulus', rin2=rin2, rout2=rout2 + 2), (True, True, True)))
    for (w2, h2), (ang, _) in itertools.product(((10, 6), (8, 8), (5, 12)), ANGS):
        axis = ang[0] == 0 or ang[1] == 0
        prims.append((dict(k='rectangle', api='rectangle', w2=w2, h2=h2, ang=ang), dict(k='rectangle', api='rectangle', w2=w2 + 2, h2=h2, ang=ang), (True, axis, axis)))
    for (a2, b2), (ang, _) in itertools.product(((14, 8), (10, 10), (12, 5)), ANGS):
        axis = ang[0] == 0 or ang[1] == 0 or a2 == b2
        prims.append((dict(k='ellipse', api='rotated_ellipse', a2=a2, b2=b2, ang=ang), dict(k='ellipse', api='rotated_ellipse', a2=a2 + 2, b2=b2 + 2, ang=ang), (True, axis, axis)))
    for sides, r, rot, c in itertools.product((3, 4, 6, 12), (6, 9), (0, 1, 3), ((0, 0), (2, -2))):
        step = 12 // sides
        cen = c == (0, 0)
        sym = (cen and sides % 2 == 0, cen and (2 * rot) % step == 0, cen and (6 - 2 * rot) % step == 0)
        prims.append((dict(k='polygon', api='regular_polygon', sides=sides, r=r, rot=rot, c=c), dict(k='polygon', api='regular_polygon', sides=sides, r=r + 1, rot=rot, c=c), sym))
    for vanes, w, rot, c in itertools.product((1, 2, 3, 4, 6), (3, 5), (0, 1, 3), ((0, 0), (2, 2), (4, -2))):
        step = 12 // vanes
        cen = c == (0, 0)
        sym = (cen and vanes % 2 == 0, cen and (6 - 2 * rot) % step == 0, cen and (2 * rot) % step == 0)
        prims.append((dict(k='spider', api='spider', vanes=vanes, w=w, rot=rot, c=c), dict(k='spider', api='spider', vanes=vanes, w=w + 1, rot=rot, c=c), sym))
    shapes = [(16, 16), (17, 17), (14, 19)] if tier == 'quick' else [(16, 16), (17, 17), (14, 19), (19, 14), (15, 18)]
    out = []
    n = 0
    for (nr, nc), (p, g, sym), dxu in itertools.product(shapes, prims, (1, 2)):
        n += 1
        if tier == 'quick' and n % 3 != 1 and p['k'] not in ('circle', 'annulus') and not (p['k'] == 'spider' and p['c'] == (4, -2) and p['w'] == 3 and dxu == 1 and (nr, nc) == shapes[0]):
            continue
        out.append('[nr |-> %d, nc |-> %d, dxu |-> %d, p |-> %s, g |-> %s, sym |-> [point |-> %s, x |-> %s, y |-> %s]]'
                   % (nr, nc, dxu, prim_rec(**p), prim_rec(**g), *('TRUE' if s else 'FALSE' for s in sym)))
    return out


LAWS = {'hex': ('HexCount', 'HexWindowCovers', 'HexDisjoint', 'HexPitch', 'HexArea', 'HexOpd'),
        'key': ('KeyCount', 'KeyWindowCovers', 'KeyDisjoint', 'KeyPartition', 'KeyAmp'),
        'prim': ('PrimMonotone', 'PrimSymmetry', 'PrimNontrivial')}


def cfg(mode, cases, emit, variant='design', laws=None):
    c = 'INIT Init\nNEXT Next\nCHECK_DEADLOCK FALSE\nCONSTANTS\n Mode = "%s"\n Variant = "%s"\n EmitOn = %s\n' % (mode, variant, 'TRUE' if emit else 'FALSE')
    c += 'INVARIANT Emit\n' if emit else ''.join('INVARIANT %s\n' % i for i in (laws or LAWS[mode]))
    return c, dict(Cases=tla_set(cases))


RING_CFG = 'INIT Init\nNEXT Next\nCHECK_DEADLOCK FALSE\nCONSTANTS\n MaxRing = %d\n Excludes = {{}, {0}, {1, 4}, {0, 7, 18}, {6}, {0, 6, 12}, {2, 3, 5, 36}}\n Variant = "%s"\n EmitOn = %s\n%s'
RING_LAWS = ('CubeLaw', 'OnRing', 'Distinct', 'Chain', 'Closed', 'MatchesClosedForm', 'IdLaw')


# ---------------------------------------------------------------------------------------------- replay
UNIT = (0.5, 0.05, 1.0)


def grid(np, cs, unit):
    from prysm.coordinates import make_xy_grid
    return make_xy_grid((cs['nr'], cs['nc']), dx=cs['dxu'] * unit)


def cells_mask(np, cells, shape):
    m = np.zeros(shape, dtype=bool)
    for i, j in cells:
        m[i - 1, j - 1] = True
    return m


def guarded(ctx, sig, rec, thunk):
    try:
        return thunk()
    except Exception as ex:
        import traceback
        if not any('/prysm/' in f.filename for f in traceback.extract_tb(ex.__traceback__)):
            raise
        ctx.fail(sig + ':raised', '%s: %s' % (type(ex).__name__, str(ex)[:300]), rec)
        return None


def basis_pxy(orders, x, y):
    import numpy as np
    return [np.ones_like(x), x, y]


def replay_hex(rec, ctx, np, idx):
    from prysm.segmented import CompositeHexagonalAperture
    cs = rec['cs']
    unit = UNIT[idx % len(UNIT)]
    x, y = grid(np, cs, unit)
    tag = 'rot%d:%s' % (cs['rot'], 'odd' if (cs['nr'] % 2 or cs['nc'] % 2) else 'even')
    desc = 'grid %dx%d dx=%g D=%g gap=%g angle=%d rings=%d exclude=%s' % (cs['nr'], cs['nc'], cs['dxu'] * unit, cs['d'] * unit, cs['s'] * unit, cs['rot'], cs['rings'], cs['ex'])
    ap = guarded(ctx, 'Hex:construct:' + tag, rec, lambda: CompositeHexagonalAperture(x, y, cs['rings'], cs['d'] * unit, cs['s'] * unit, segment_angle=cs['rot'], exclude=tuple(cs['ex'])))
    ctx.replayed(1, key=json.dumps(cs, sort_keys=True))
    if ap is None:
        return
    segs = rec['segs']
    if [int(i) for i in ap.segment_ids] != [s['id'] for s in segs] or len(ap.windows) != len(segs) or len(ap.local_masks) != len(segs):
        ctx.fail('Hex:segment-ids:' + tag, '%s: segment ids %s, want %s' % (desc, [int(i) for i in ap.segment_ids], [s['id'] for s in segs]), rec)
        return
    want_c = np.array([[q3(s['c2'][0]) / 2 * unit, q3(s['c2'][1]) / 2 * unit] for s in segs])
    if len(ap.all_centers) != len(segs) or core.maxabs(np.array(ap.all_centers, dtype=float).reshape(-1, 2) - want_c) > 1e-9 * max(1.0, unit * 100):
        ctx.fail('Hex:centres:' + tag, '%s: centres %s, want %s' % (desc, np.array(ap.all_centers).tolist()[:4], want_c.tolist()[:4]), rec)
        return
    count = np.zeros(x.shape, dtype=int)
    anytie = np.zeros(x.shape, dtype=bool)
    union_in = np.zeros(x.shape, dtype=bool)
    fulls = []
    for s, win, lm in zip(segs, ap.windows, ap.local_masks):
        full = np.zeros(x.shape, dtype=bool)
        full[win] = lm
        fulls.append(full)
        inn, tie = cells_mask(np, s['in'], x.shape), cells_mask(np, s['tie'], x.shape)
        anytie |= tie
        union_in |= inn
        count += full
        bad = (full != inn) & ~tie
        if bad.any():
            i, j = map(int, np.argwhere(bad)[0])
            ctx.fail('Hex:segment-mask:%s:%s' % ('missing' if inn[i, j] else 'extra', tag),
                     '%s: segment id %d (cell %s): %d sample(s) differ from the exact hexagon, e.g. sample (row %d, col %d) is %s the hexagon but %s the segment mask; window %s'
                     % (desc, s['id'], s['hex'], int(bad.sum()), i, j, 'strictly inside' if inn[i, j] else 'strictly outside', 'not in' if inn[i, j] else 'in', win), rec)
    if ((count > 1) & ~anytie).any():
        ctx.fail('Hex:overlap:' + tag, '%s: %d sample(s) belong to two segments' % (desc, int(((count > 1) & ~anytie).sum())), rec)
    amp = np.asarray(ap.amp).astype(bool)
    if not np.array_equal(amp, count > 0):
        ctx.fail('Hex:amp-not-union:' + tag, '%s: amp differs from the union of the segment masks in %d sample(s)' % (desc, int((amp != (count > 0)).sum())), rec)
    if ((amp != union_in) & ~anytie).any():
        ctx.fail('Hex:amp:' + tag, '%s: amp differs from the exact union in %d sample(s)' % (desc, int(((amp != union_in) & ~anytie).sum())), rec)
    if not cs['opd']:
        return
    # optical path error: piston / x / y per segment, unit normalisation radius (one model unit)
    def compose(coefs):
        return np.asarray(ap.compose_opd(coefs))
    ok = guarded(ctx, 'Hex:opd:' + tag, rec, lambda: ap.prepare_opd_bases(basis_pxy, None, normalization_radius=(unit, unit)))
    if ok is None:
        return
    ca = [np.array(c, dtype=float) for c in rec['coefs']]
    want = np.array([[q3(v) / 2 for v in row] for row in rec['opd2']])
    got = guarded(ctx, 'Hex:opd:' + tag, rec, lambda: compose(ca))
    if got is None:
        return
    scale = max(1.0, float(np.abs(want).max()))
    bad = (np.abs(got - want) > 1e-9 * scale) & ~anytie
    if bad.any() or not np.isfinite(got).all():
        i, j = map(int, np.argwhere(bad | ~np.isfinite(got))[0])
        ctx.fail('Hex:opd:value:' + tag, '%s: compose_opd differs from the exact accumulation in %d sample(s), e.g. (row %d, col %d): %r want %r' % (desc, int(bad.sum()), i, j, float(got[i, j]), float(want[i, j])), rec)
    k = next(i for i, s in enumerate(segs) if s['id'] == cs['target'])
    cb = [np.array([1.0 if i == k else 0.0, 0.0, 0.0]) for i in range(len(segs))]
    gb = compose(cb)
    if not np.array_equal(gb != 0, fulls[k]) or core.maxabs(gb[fulls[k]] - 1) > 1e-12:
        ctx.fail('Hex:opd:confined:' + tag, '%s: a unit piston on segment id %d changes %d sample(s) outside it / is not 1 inside it' % (desc, cs['target'], int(((gb != 0) & ~fulls[k]).sum())), rec)
    gab = compose([a + 2.5 * b for a, b in zip(ca, cb)])
    if core.maxabs(gab - (got + 2.5 * gb)) > 1e-9 * scale:
        ctx.fail('Hex:opd:linear:' + tag, '%s: compose_opd(a + 2.5 b) != compose_opd(a) + 2.5 compose_opd(b): %.3g' % (desc, core.maxabs(gab - (got + 2.5 * gb))), rec)
    # accumulating into a caller-supplied array adds to it
    base = np.full(x.shape, 3.0)
    out = ap.compose_opd(ca, out=base.copy())
    if core.maxabs(np.asarray(out) - (got + 3.0)) > 1e-9 * scale:
        ctx.fail('Hex:opd:out:' + tag, '%s: compose_opd(out=...) does not accumulate into the given array' % desc, rec)


def replay_key(rec, ctx, np, idx):
    from prysm.segmented import CompositeKeystoneAperture
    cs = rec['cs']
    unit = UNIT[idx % len(UNIT)]
    x, y = grid(np, cs, unit)
    rings = cs['rings']
    tag = 'n=%s:%s' % ('+'.join(str(r['n']) for r in rings), 'odd' if (cs['nr'] % 2 or cs['nc'] % 2) else 'even')
    desc = 'grid %dx%d dx=%g centre diameter=%g rings=%s azimuthal gap=%g' % (cs['nr'], cs['nc'], cs['dxu'] * unit, cs['cd'] * unit, rings, cs['ag'] * unit)
    ap = guarded(ctx, 'Keystone:construct:' + tag, rec, lambda: CompositeKeystoneAperture(
        x, y, cs['cd'] * unit, len(rings), [r['w'] * unit for r in rings], [r['n'] for r in rings], [r['g'] * unit for r in rings],
        azimuthal_gap=cs['ag'] * unit, rotation_per_ring=[None if r['rot'] < 0 else r['rot'] * 30 for r in rings]))
    ctx.replayed(1, key=json.dumps(cs, sort_keys=True))
    if ap is None:
        return
    segs = rec['segs']
    if len(ap.segment_masks) != len(segs) or len(ap.segment_windows) != len(segs) or [int(i) for i in ap.segment_ids] != list(range(len(segs))):
        ctx.fail('Keystone:count:' + tag, '%s: %d segments (ids %s), want %d' % (desc, len(ap.segment_masks), list(ap.segment_ids)[:5], len(segs)), rec)
        return
    centre = np.array(rec['centre'])
    full = np.zeros(x.shape, dtype=bool)
    full[ap.center_window] = ap.center_mask
    centrefull, segfull = full.copy(), []
    count = full.astype(int)
    anytie = centre == 2
    if ((full != (centre == 1)) & (centre != 2)).any():
        ctx.fail('Keystone:centre-mask:' + tag, '%s: centre disc differs from r <= %g in %d sample(s)' % (desc, cs['cd'] * unit / 2, int(((full != (centre == 1)) & (centre != 2)).sum())), rec)
    for k, (s, win, lm) in enumerate(zip(segs, ap.segment_windows, ap.segment_masks)):
        full = np.zeros(x.shape, dtype=bool)
        full[win] = lm
        inn, tie = cells_mask(np, s['in'], x.shape), cells_mask(np, s['tie'], x.shape)
        segfull.append(full)
        anytie |= tie
        count += full
        bad = (full != inn) & ~tie
        if bad.any():
            i, j = map(int, np.argwhere(bad)[0])
            ctx.fail('Keystone:segment-mask:%s:%s' % ('missing' if inn[i, j] else 'extra', tag),
                     '%s: segment %d (ring %d, %d..%d deg): %d sample(s) differ from the exact annular sector, e.g. (row %d, col %d) is %s; window %s'
                     % (desc, k, s['ring'], s['lo'] * 30, s['hi'] * 30, int(bad.sum()), i, j, 'missing' if inn[i, j] else 'extra', win), rec)
    if (count > 1).any():
        ctx.fail('Keystone:overlap:' + tag, '%s: %d sample(s) belong to two segments' % (desc, int((count > 1).sum())), rec)
    amp = np.asarray(ap.amp).astype(bool)
    if (amp & (count != 1)).any():
        ctx.fail('Keystone:amp-outside-segments:' + tag, '%s: %d transmitting sample(s) belong to no segment or to two' % (desc, int((amp & (count != 1)).sum())), rec)
    want = np.array(rec['amp'])
    bad = (amp != (want == 1)) & (want != 2)
    if bad.any():
        i, j = map(int, np.argwhere(bad)[0])
        ctx.fail('Keystone:amp:%s:%s' % ('missing' if want[i, j] == 1 else 'extra', tag), '%s: amp differs from (centre + sectors - gaps) in %d sample(s), e.g. (row %d, col %d)' % (desc, int(bad.sum()), i, j), rec)
    if idx % 3 == 0:
        replay_key_opd(rec, ctx, np, ap, x, segfull, centrefull, tag, desc)


def basis_polar_piston(orders, r, t):
    import numpy as np
    return [np.ones_like(r)]


def replay_key_opd(rec, ctx, np, ap, x, segfull, centrefull, tag, desc):
    """per-segment optical path error of a keystone aperture: confined to its segment, linear in the coefficients"""
    nseg = len(segfull)
    rng = np.random.RandomState(7 + nseg)
    for name, prep, nmodes in (('polar', lambda: ap.prepare_opd_bases(basis_polar_piston, None, basis_polar_piston, None), 1),
                               ('cartesian', lambda: ap.prepare_opd_bases(basis_pxy, None, basis_pxy, None, rotate_xyaxes=True), 3)):
        if guarded(ctx, 'Keystone:opd:%s:%s' % (name, tag), rec, prep) is None:
            continue
        zero_c = np.zeros(nmodes)
        k = nseg // 2
        piston = [np.eye(1, nmodes, 0).ravel() if i == k else np.zeros(nmodes) for i in range(nseg)]
        got = guarded(ctx, 'Keystone:opd:%s:%s' % (name, tag), rec, lambda: np.asarray(ap.compose_opd(zero_c, piston)))
        if got is None:
            continue
        if not np.array_equal(got != 0, segfull[k]) or core.maxabs(got[segfull[k]] - 1) > 1e-12:
            ctx.fail('Keystone:opd:confined:%s:%s' % (name, tag), '%s: a unit piston on segment %d changes %d sample(s) outside it' % (desc, k, int(((got != 0) & ~segfull[k]).sum())), rec)
        gc = np.asarray(ap.compose_opd(np.eye(1, nmodes, 0).ravel(), [np.zeros(nmodes)] * nseg))
        if not np.array_equal(gc != 0, centrefull):
            ctx.fail('Keystone:opd:confined-centre:%s:%s' % (name, tag), '%s: a unit piston on the centre segment is not confined to it' % desc, rec)
        ca, cb = [rng.normal(size=nmodes) for _ in range(nseg)], [rng.normal(size=nmodes) for _ in range(nseg)]
        a0, b0 = rng.normal(size=nmodes), rng.normal(size=nmodes)
        ga, gb = np.asarray(ap.compose_opd(a0, ca)), np.asarray(ap.compose_opd(b0, cb))
        gab = np.asarray(ap.compose_opd(a0 + 2.5 * b0, [u + 2.5 * v for u, v in zip(ca, cb)]))
        if core.maxabs(gab - (ga + 2.5 * gb)) > 1e-9 * max(1.0, float(np.abs(ga).max())):
            ctx.fail('Keystone:opd:linear:%s:%s' % (name, tag), '%s: compose_opd is not linear in the coefficients' % desc, rec)
        anyseg = centrefull.copy()
        for f in segfull:
            anyseg |= f
        if (ga[~anyseg] != 0).any():
            ctx.fail('Keystone:opd:outside:%s:%s' % (name, tag), '%s: optical path error outside every segment' % desc, rec)


def replay_prim(rec, ctx, np, idx):
    from prysm import geometry as G
    from prysm.coordinates import cart_to_polar
    cs = rec['cs']
    unit = UNIT[idx % len(UNIT)]
    x, y = grid(np, cs, unit)
    for which, p, want in (('', cs['p'], np.array(rec['cls'])), (':grown', cs['g'], np.array(rec['grown']))):
        api = p['api']
        cx, cy = p['c'][0] / 2 * unit, p['c'][1] / 2 * unit
        deg = math.degrees(math.atan2(p['ang'][1], p['ang'][0]))
        if api == 'circle':
            r, _ = cart_to_polar(x, y)
            f, desc = (lambda: G.circle(p['r2'] / 2 * unit, r)), 'circle(%g)' % (p['r2'] / 2 * unit)
        elif api == 'offset_circle':
            f, desc = (lambda: G.offset_circle(p['r2'] / 2 * unit, x, y, (cx, cy))), 'offset_circle(%g, center=%s)' % (p['r2'] / 2 * unit, (cx, cy))
        elif api == 'annulus':
            r, _ = cart_to_polar(x, y)
            f, desc = (lambda: G.annulus(p['rin2'] / 2 * unit, p['rout2'] / 2 * unit, r)), 'annulus(%g, %g)' % (p['rin2'] / 2 * unit, p['rout2'] / 2 * unit)
        elif api == 'rectangle':
            f, desc = (lambda: G.rectangle(p['w2'] / 2 * unit, x, y, height=p['h2'] / 2 * unit, angle=deg)), 'rectangle(%g, height=%g, angle=%.4f)' % (p['w2'] / 2 * unit, p['h2'] / 2 * unit, deg)
        elif api == 'rotated_ellipse':
            f, desc = (lambda: G.rotated_ellipse(p['a2'] / 2 * unit, p['b2'] / 2 * unit, x, y, major_axis_angle=deg)), 'rotated_ellipse(%g, %g, angle=%.4f)' % (p['a2'] / 2 * unit, p['b2'] / 2 * unit, deg)
        elif api == 'regular_polygon':
            f, desc = (lambda: G.regular_polygon(p['sides'], p['r'] * unit, x, y, center=(cx, cy), rotation=p['rot'] * 30)), 'regular_polygon(%d, %g, center=%s, rotation=%d)' % (p['sides'], p['r'] * unit, (cx, cy), p['rot'] * 30)
        else:
            f, desc = (lambda: G.spider(p['vanes'], p['w'] * unit, x, y, rotation=p['rot'] * 30, center=(cx, cy))), 'spider(%d, %g, rotation=%d, center=%s)' % (p['vanes'], p['w'] * unit, p['rot'] * 30, (cx, cy))
        sig = 'Prim:%s' % api
        got = guarded(ctx, sig, rec, f)
        if got is None:
            continue
        got = np.asarray(got)
        if got.shape != x.shape:
            got = np.broadcast_to(got, x.shape)
        vals = set(np.unique(got).tolist())
        if not vals <= {0, 1, 0.0, 1.0, True, False}:
            ctx.fail(sig + ':not-binary', '%s on a %dx%d grid: values %s' % (desc, cs['nr'], cs['nc'], sorted(vals)[:5]), rec)
            continue
        got = got.astype(bool)
        bad = (got != (want == 1)) & (want != 2)
        if bad.any():
            i, j = map(int, np.argwhere(bad)[0])
            ctx.fail('%s:%s%s' % (sig, 'missing' if want[i, j] == 1 else 'extra', which),
                     '%s on a %dx%d grid dx=%g: %d sample(s) on the wrong side of the analytic boundary, e.g. (row %d, col %d) x=%g y=%g is %s'
                     % (desc, cs['nr'], cs['nc'], cs['dxu'] * unit, int(bad.sum()), i, j, float(x[i, j]), float(y[i, j]), 'missing' if want[i, j] == 1 else 'extra'), rec)
    ctx.replayed(1, key=json.dumps(cs, sort_keys=True))


def replay_ring(rec, ctx):
    from prysm.segmented import hex_ring
    got = [[h.q, h.r, h.s] for h in hex_ring(rec['k'])]
    if got != rec['ring']:
        ctx.fail('HexRing:walk', 'hex_ring(%d) = %s..., want %s...' % (rec['k'], got[:4], rec['ring'][:4]), rec)
    ctx.replayed(1, key=('ring', rec['k']))


REPLAY = {'hex': replay_hex, 'key': replay_key, 'prim': replay_prim}


def chunks(xs, n):
    k = max(1, (len(xs) + n - 1) // n)
    return [xs[i:i + k] for i in range(0, len(xs), k)]


def run(ctx, replay_path=None, selftest=False, replay=None):
    import numpy as np
    replay_path = replay_path or replay
    for m in ('HexLib', 'HexRing', 'Aperture'):
        core.sany(m)
    ring_cfg = lambda variant, emit, maxring: RING_CFG % (maxring, variant, 'TRUE' if emit else 'FALSE', 'INVARIANT Emit\n' if emit else ''.join('INVARIANT %s\n' % i for i in RING_LAWS))
    if replay_path:
        rec = json.load(open(replay_path))['record']
        ctx.tlc('HexRing', ring_cfg('wrong-turn', False, 3), name='replay-smoke', emit=False, must_hold=False)
        if 'ring' in rec:
            replay_ring(rec, ctx)
        else:
            REPLAY[rec['mode']](rec, ctx, np, rec.get('_idx', 0))
        return
    maxring = 6 if ctx.tier == 'quick' else 12
    ctx.tlc('HexRing', ring_cfg('design', False, maxring), name='ring-laws', emit=False, require_actions=('Step', 'Rotate'))
    ctx.tlc('HexRing', ring_cfg('wrong-turn', False, 3), name='pinned-wrong-turn', emit=False, must_hold=False, count=False)
    r = ctx.tlc('HexRing', ring_cfg('design', True, maxring), name='ring-emit', count=False)
    for rec in r.records:
        replay_ring(rec, ctx)
    cases = {'hex': hex_cases(ctx.tier), 'key': key_cases(ctx.tier), 'prim': prim_cases(ctx.tier)}
    for mode in ('hex', 'key', 'prim'):
        c, d = cfg(mode, cases[mode], False)
        rl = ctx.tlc('Aperture', c, defs=d, name='laws-' + mode, emit=False, require_actions=('Compute',), timeout=3000)
        if rl.distinct < 2 * len(cases[mode]):
            raise core.Machinery('Aperture %s laws explored only %d states for %d cases' % (mode, rl.distinct, len(cases[mode])))
    # the pinned window computations do not contain their segments
    c, d = cfg('hex', hex_cases('quick')[:12], False, variant='trunc-window', laws=('HexWindowCovers',))
    ctx.tlc('Aperture', c, defs=d, name='pinned-trunc-window', emit=False, must_hold=False, count=False)
    big = '[nr |-> 40, nc |-> 40, dxu |-> 1, cd |-> 8, rings |-> <<[n |-> 3, w |-> 14, g |-> 1, rot |-> -1]>>, ag |-> 1]'
    c, d = cfg('key', [big], False, laws=('KeyWindowCovers',))
    ctx.tlc('Aperture', c, defs=d, name='design-bbox-big', emit=False, count=False)
    c, d = cfg('key', [big], False, variant='corner-bbox', laws=('KeyWindowCovers',))
    ctx.tlc('Aperture', c, defs=d, name='pinned-corner-bbox', emit=False, must_hold=False, count=False)
    # emission: partitioned over parallel single-worker runs
    thunks = []
    for mode in ('hex', 'key', 'prim'):
        for n, part in enumerate(chunks(cases[mode], 5 if ctx.tier == 'quick' else 8)):
            c, d = cfg(mode, part, True)
            thunks.append(lambda c=c, d=d, mode=mode, n=n: ctx.tlc('Aperture', c, defs=d, name='emit-%s-%d' % (mode, n), coverage=False, count=False, timeout=3000))
    recs = []
    for part in core.parallel(thunks):
        recs += part.records
    if len(recs) != sum(len(v) for v in cases.values()):
        raise core.Machinery('emitted %d records for %d cases' % (len(recs), sum(len(v) for v in cases.values())))
    for idx, rec in enumerate(recs):
        rec['_idx'] = idx
        REPLAY[rec['mode']](rec, ctx, np, idx)
    if selftest:
        rec = json.loads(json.dumps(next(x for x in recs if x['mode'] == 'hex' and len(x['segs']) > 1 and x['segs'][1]['in'])))
        rec['segs'][1]['in'] = rec['segs'][1]['in'][1:]
        before = len(ctx.fails)
        replay_hex(rec, ctx, np, rec['_idx'])
        if len(ctx.fails) == before:
            raise core.Machinery('selftest: a sample removed from an exact segment was not noticed')
        del ctx.fails[before:]
        rec = json.loads(json.dumps(next(x for x in recs if x['mode'] == 'prim')))
        flip = next((i, j) for i, row in enumerate(rec['cls']) for j, v in enumerate(row) if v == 1)
        rec['cls'][flip[0]][flip[1]] = 0
        before = len(ctx.fails)
        replay_prim(rec, ctx, np, rec['_idx'])
        if len(ctx.fails) == before:
            raise core.Machinery('selftest: a flipped exact class was not noticed')
        del ctx.fails[before:]
        ctx.notes.append('selftest: corrupted exact segment / primitive class rejected')
    ex = next(x for x in recs if x['mode'] == 'hex')
    ctx.sample({'hex case': ex['cs'], 'segments': [(s['id'], s['hex'], len(s['in']), len(s['tie'])) for s in ex['segs']][:8]})
    ctx.bounds = {'hex cases': len(cases['hex']), 'keystone cases': len(cases['key']), 'primitive cases': len(cases['prim']), 'ring radius': maxring}
    ctx.assumptions += ['lengths are integer multiples of a unit (unit lengths 0.5, 0.05, 1.0), angles multiples of 30 degrees or Pythagorean: membership is exact in Z[sqrt 3]',
                        'samples exactly on an analytic boundary (class tie) are not compared: the rasterisation may put them on either side',
                        'keystone apertures with 2, 3, 4, 6 or 12 segments per ring; other counts have transcendental sector boundaries and are not examined']

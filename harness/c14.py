"""C14 -- instrument-file round trips and truncation.  Spec: InstrumentFile.tla (file = header + samples in the writer's
order; every truncation point; read outcomes).  Binding: for every TLC behaviour (format, shape, invalid set, cut) the
driver writes a REAL file with the library's writer, cuts it at the byte offset the abstract cut maps to, reads it back
with warnings captured, and checks the relation the property states, using the specification's `missing` set."""
import json
import os
import shutil
import tempfile
import warnings

from . import core, dftlib as D

PROP = 'C14'
CLASSES = ['positive', 'negative', 'mixed', 'constant', 'tiny', 'huge']


def cfg(shapes, fmts, maxinv, variant='design', emit=False):
    c = 'INIT Init\nNEXT Next\nCHECK_DEADLOCK FALSE\nCONSTANTS\n MaxInvalid = %d\n Variant = "%s"\n EmitOn = %s\n' % (maxinv, variant, 'TRUE' if emit else 'FALSE')
    c += 'INVARIANT Emit\n' if emit else 'INVARIANT RoundTrip\nINVARIANT NoSilentTruncation\n'
    return c, dict(Shapes=D.tup(shapes), Fmts='{%s}' % ', '.join('"%s"' % f for f in fmts), Origins='{"prysm", "instrument"}')


def make_map(shape, invalid, cls, np):
    r, c = shape
    lab = (np.arange(r)[:, None] * c + np.arange(c)[None, :] + 1).astype(float)   # 1..N, all different
    n = r * c
    if cls == 'positive':
        a = 1500.0 + 37.0 * lab                  # nm, > 1 um everywhere
    elif cls == 'negative':
        a = -200.0 - 53.0 * lab
    elif cls == 'mixed':
        a = 61.0 * (lab - (n + 1) / 2.0) + 7.0
    elif cls == 'constant':
        a = np.full((r, c), 321.5)
    elif cls == 'tiny':
        a = 1e-3 * (lab - n / 3.0)
    else:
        a = 1.0e7 + 1.0e5 * lab                  # 10 mm of sag: huge, inside the int32 * lambda/32768 range (41 mm)
    a = a.astype(float)
    for i, j in invalid:
        a[i - 1, j - 1] = np.nan
    return a


def cut_offset(fmt, path, keep, partial, n):
    """Byte offset realising the abstract cut (keep complete samples, optionally part of the next)."""
    if fmt in ('zygo', 'igram'):
        return 834 + 4 * keep + (2 if partial else 0)
    raw = open(path, 'rb').read()
    # data block starts after the title line and the header line
    p = raw.index(b'\n') + 1
    p = raw.index(b'\n', p) + 1
    # walk tokens
    pos = p
    ends = []
    starts = []
    while pos < len(raw) and len(ends) < n:
        while pos < len(raw) and raw[pos:pos + 1].isspace():
            pos += 1
        if pos >= len(raw):
            break
        st = pos
        while pos < len(raw) and not raw[pos:pos + 1].isspace():
            pos += 1
        starts.append(st)
        ends.append(pos)
    if len(ends) != n:
        raise core.Machinery('could not find %d tokens in the written Code V file (%d found)' % (n, len(ends)))
    if not partial:
        return ends[keep - 1] + 1 if keep > 0 else p
    st, en = starts[keep], ends[keep]
    if en - st < 2:
        return None          # a one-character token has no proper prefix: this abstract cut does not exist for this file
    return st + 1 if raw[st:st + 1] != b'-' or en - st < 3 else st + 2


def step_of(fmt, path, amax, np):
    """Quantisation step the file itself declares (bounded by the format's range)."""
    if fmt in ('zygo', 'igram'):
        from prysm.io import read_zygo_metadata, ZYGO_PHASE_RES_FACTORS
        meta = read_zygo_metadata(open(path, 'rb').read())
        step = meta['wavelength'] * meta['scale_factor'] * meta['obliquity_factor'] / ZYGO_PHASE_RES_FACTORS[meta['phase_res']] * 1e9
        bound = 0.6328e3 / 4096 * 1.01        # lambda / 4096 is the coarsest resolution MetroPro defines
        return step if step <= bound else None
    txt = open(path).read().split('\n')[1].split()
    ssz = float(txt[txt.index('SSZ') + 1])
    wvl = float(txt[txt.index('WVL') + 1])
    step = abs(1000 * wvl / ssz)
    bound = max(amax, 1e-12) / 32767 * 1.001 if amax > 0 else float('inf')
    return step if step <= bound else None


def do_read(fmt, path, np):
    from prysm import io as pio
    with warnings.catch_warnings(record=True) as w:
        warnings.simplefilter('always')
        if fmt == 'zygo':
            d = pio.read_zygo_dat(path)
            out = dict(a=np.asarray(d['phase'], dtype=float), dx=d['meta']['lateral_resolution'] * 1e3, wvl=d['meta']['wavelength'] * 1e6)
        elif fmt == 'igram':
            from prysm.interferogram import Interferogram
            i = Interferogram.from_zygo_dat(path)
            out = dict(a=np.asarray(i.data, dtype=float), dx=float(i.dx), wvl=float(i.wavelength))
        else:
            a, meta = pio.read_codev_gridint(path)
            out = dict(a=np.asarray(a, dtype=float), dx=None, wvl=None)
    out['warned'] = len(w) > 0
    return out


ZYGO_HEADER = 834


def as_instrument(path, frame=(3, 4)):
    """Turn a prysm-written Zygo file into one laid out the way the instrument writes it: an intensity frame (ac_height x
    ac_width uint16 samples, one bucket) between the header and the phase block, declared in the header's ac_* fields."""
    import struct
    raw = bytearray(open(path, 'rb').read())
    ih, iw = frame
    struct.pack_into('>H', raw, 52, iw)               # ac_width
    struct.pack_into('>H', raw, 54, ih)               # ac_height
    struct.pack_into('>H', raw, 56, 1)                # ac_n_buckets
    struct.pack_into('>I', raw, 60, iw * ih * 2)      # ac_n_bytes
    intens = b''.join(struct.pack('>H', 100 * k) for k in range(iw * ih))
    with open(path, 'wb') as f:
        f.write(bytes(raw[:ZYGO_HEADER]) + intens + bytes(raw[ZYGO_HEADER:]))
    return iw * ih * 2


def second_generation(fmt, path, a, dx, wvl, np, instrument=False):
    """Write, read back, re-calibrate the object that came back to a new spacing, write again.  Returns the new dx."""
    from prysm import io as pio
    do_write(fmt, path, a, dx, wvl, np)
    if instrument:
        as_instrument(path)
    new_dx = dx * 3.0
    if fmt == 'igram':
        from prysm.interferogram import Interferogram
        i = Interferogram.from_zygo_dat(path)
        i.latcal(new_dx)
        i.save_zygo_dat(path)
    elif fmt == 'zygo':
        d = pio.read_zygo_dat(path)
        pio.write_zygo_dat(path, d['phase'], new_dx, wavelength=d['meta']['wavelength'] * 1e6)
    else:
        b, meta = pio.read_codev_gridint(path)
        pio.write_codev_gridint(b, path)
    return new_dx


def do_write(fmt, path, a, dx, wvl, np):
    from prysm import io as pio
    if fmt == 'zygo':
        pio.write_zygo_dat(path, a.copy(), dx, wavelength=wvl)
    elif fmt == 'igram':
        from prysm.interferogram import Interferogram
        Interferogram(a.copy(), dx=dx, wavelength=wvl).save_zygo_dat(path)
    else:
        pio.write_codev_gridint(a.copy(), path)


def replay(rec, ctx, np, tmp, classes, fmts):
    shape = tuple(rec['shape'])
    invalid = [tuple(p) for p in rec['invalid']]
    keep, partial, n = rec['keep'], rec['partial'], rec['n']
    intact = keep == n
    missing = {tuple(p) for p in rec['missing']}
    for fmt in fmts:
        if fmt != rec['fmt'] and not (fmt == 'igram' and rec['fmt'] == 'zygo'):
            continue
        for ci, cls in enumerate(classes):
            if not intact and ci > 0:
                continue           # truncation behaviour does not depend on the values: one class
            dx, wvl = (0.25, 0.6328) if (shape[0] + ci) % 2 else (1.5, 0.55)
            a = make_map(shape, invalid, cls, np)
            path = os.path.join(tmp, 'f.%s' % ('int' if fmt == 'codev' else 'dat'))
            site = {'zygo': 'write_zygo_dat->read_zygo_dat', 'igram': 'Interferogram.save_zygo_dat->from_zygo_dat', 'codev': 'write_codev_gridint->read_codev_gridint'}[fmt]
            shp_cls = 'sq' if shape[0] == shape[1] else ('1xN' if shape[0] == 1 else ('Nx1' if shape[1] == 1 else 'nonsq'))
            try:
                instrument = rec.get('origin') == 'instrument'
                extra_bytes = 0
                if rec.get('gen', 1) == 2:
                    dx = second_generation(fmt, path, a, dx, wvl, np, instrument=instrument)
                    if intact:
                        site += ':resaved'
                else:
                    do_write(fmt, path, a, dx, wvl, np)
                    if instrument:
                        extra_bytes = as_instrument(path)
                if instrument:
                    site += ':instrument-file'
            except Exception as ex:
                ctx.fail('File:%s:write-raised:%s:%s' % (site, cls, shp_cls), 'shape=%s invalid=%s: %s: %s' % (shape, invalid, type(ex).__name__, ex), rec)
                ctx.replayed(1, key=(fmt, shape, tuple(invalid), cls, keep, partial))
                continue
            if not intact:
                off = cut_offset(fmt, path, keep, partial, n)
                if off is None:
                    continue
                off += extra_bytes
                with open(path, 'rb') as f:
                    raw = f.read()
                with open(path, 'wb') as f:
                    f.write(raw[:off])
            ctx.replayed(1, key=(fmt, shape, tuple(invalid), cls, keep, partial))
            try:
                out = do_read(fmt, path, np)
            except Exception as ex:
                if intact:
                    ctx.fail('File:%s:read-raised:%s:%s' % (site, cls, shp_cls), 'shape=%s invalid=%s: %s: %s' % (shape, invalid, type(ex).__name__, ex), rec)
                continue            # a cut file that is rejected with an exception satisfies the property
            b = out['a']
            if intact:
                msgs = []
                if b.shape != a.shape:
                    msgs.append(('shape', 'read shape %s, wrote %s' % (b.shape, a.shape)))
                else:
                    if not np.array_equal(np.isnan(b), np.isnan(a)):
                        msgs.append(('invalid', 'invalid samples at %s, written at %s' % (np.argwhere(np.isnan(b)).tolist(), np.argwhere(np.isnan(a)).tolist())))
                    else:
                        v = np.isfinite(a)
                        amax = float(core.maxabs(a[v])) if v.any() else 0.
                        step = step_of(fmt, path, amax, np) if v.any() else 1.0
                        if step is None:
                            msgs.append(('step', 'the file declares a quantisation step beyond the format range'))
                        elif v.any() and float(core.maxabs(b[v] - a[v])) > rec.get('gen', 1) * step * 1.0001 + 1e-12 * amax:   # one step per quantisation
                            # orientation error or scale error?  distinct values tell them apart
                            kind = 'orientation' if cls != 'constant' and any(
                                np.allclose(np.nan_to_num(t), np.nan_to_num(a), atol=step * 1.0001 + 1e-12 * amax)
                                for t in (np.nan_to_num(b)[::-1], np.nan_to_num(b)[:, ::-1], np.nan_to_num(b)[::-1, ::-1])) else 'value'
                            msgs.append((kind, 'max error %.6g exceeds one quantisation step %.6g (wrote %s, read %s)' % (
                                float(core.maxabs(b[v] - a[v])), step, a.tolist(), b.tolist())))
                    if out['dx'] is not None and (abs(out['dx'] - dx) > 1e-6 * dx or abs(out['wvl'] - wvl) > 1e-6 * wvl):
                        msgs.append(('dx-wavelength', 'dx %r / wavelength %r, wrote %r / %r' % (out['dx'], out['wvl'], dx, wvl)))
                if out['warned']:
                    msgs.append(('spurious-warning', 'intact file read with a warning'))
                for kind, m in msgs:
                    ctx.fail('File:%s:%s:%s:%s' % (site, kind, cls, shp_cls), 'shape=%s invalid=%s: %s' % (shape, invalid, m[:600]), rec)
            else:
                # read without exception: must be warned and every missing sample invalid; surviving samples intact
                bad = None
                if not out['warned']:
                    bad = 'silent'
                elif b.shape != a.shape:
                    bad = 'shape'
                elif any(not np.isnan(b[i - 1, j - 1]) for i, j in missing):
                    bad = 'missing-not-invalid'
                if bad:
                    where = 'last-token' if (fmt == 'codev' and partial and keep == n - 1) else ('partial' if partial else 'boundary')
                    ctx.fail('File:%s:truncated:%s:%s' % (site, bad, where),
                             'shape=%s cut after %d of %d samples%s: read returned %s array, warned=%s, data=%s' % (
                                 shape, keep, n, ' + part of the next' if partial else '', b.shape, out['warned'], np.round(b, 3).tolist()), rec)


def run(ctx, replay_path=None, selftest=False, replay=None):
    import numpy as np
    replay_path = replay_path or replay
    core.sany('InstrumentFile')
    quick = ctx.tier == 'quick'
    shapes = [(1, 1), (1, 3), (3, 1), (2, 2), (2, 3), (3, 2), (3, 3)] if quick else \
             [(1, 1), (1, 2), (1, 4), (2, 1), (4, 1), (2, 2), (2, 3), (3, 2), (3, 3), (3, 4), (4, 3)]
    maxinv = 1 if quick else 2
    classes = CLASSES
    tmp = tempfile.mkdtemp(prefix='verif_c14_')
    try:
        if replay_path:
            rec = json.load(open(replay_path))['record']
            c, d = cfg([(2, 3)], ['zygo', 'codev'], 1)
            ctx.tlc('InstrumentFile', c, defs=d, name='replay-smoke', emit=False)
            globals()['replay'](rec, ctx, np, tmp, classes, ['zygo', 'igram', 'codev'])
            return
        c, d = cfg(shapes, ['zygo', 'codev'], maxinv)
        ctx.tlc('InstrumentFile', c, defs=d, name='design', emit=False, require_actions=('Write', 'DoTruncate', 'Read'))
        for variant in ('flatflip', 'swapdims', 'silenttoken', 'stale-ac'):
            c, d = cfg([(2, 3)], ['zygo', 'codev'], 0, variant=variant)
            ctx.tlc('InstrumentFile', c, defs=d, name='pinned-' + variant, emit=False, must_hold=False, count=False)
        c, d = cfg(shapes, ['zygo', 'codev'], maxinv, emit=True)
        r = ctx.tlc('InstrumentFile', c, defs=d, name='behaviours:emit', coverage=False, count=False)
        fn = globals()['replay']
        for rec in r.records:
            fn(rec, ctx, np, tmp, classes, ['zygo', 'igram', 'codev'])
        if selftest:
            rec = next(x for x in r.records if x['fmt'] == 'zygo' and x['keep'] == x['n'] and x['shape'] == [2, 3])
            from prysm import io as pio
            orig = pio.read_zygo_dat

            def mirrored(*a, **k):
                d_ = orig(*a, **k)
                d_['phase'] = d_['phase'][:, ::-1]
                return d_
            pio.read_zygo_dat = mirrored
            before = len(ctx.fails)
            try:
                fn(rec, ctx, np, tmp, classes[:1], ['zygo'])
            finally:
                pio.read_zygo_dat = orig
            if len(ctx.fails) == before:
                raise core.Machinery('selftest: a mirrored map was not rejected')
            del ctx.fails[before:]
            ctx.notes.append('selftest: left-right mirrored Zygo map rejected')
        ctx.sample(r.records[0])
        ctx.sample(r.records[-1])
        ctx.bounds = {'shapes': shapes, 'max_invalid': maxinv, 'classes': classes, 'formats': ['zygo', 'igram(save/load pair)', 'codev']}
        ctx.assumptions += ['the quantisation step is the one the file itself declares (Zygo: lambda*S*O/R, Code V: 1000*WVL/SSZ nm), bounded by the format range',
                            'a cut file that is rejected with an exception satisfies the property; header cuts are outside the statement',
                            'dx and wavelength must survive to 1e-6 relative (the Zygo header stores them as float32)']
    finally:
        shutil.rmtree(tmp, ignore_errors=True)

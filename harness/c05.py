"""C05 -- fixed-sampling results depend on the physical field, not on its array embedding.

Spec: Dft.tla -- EmbedLaw (embedding invariance of the exact kernel for every parity of the padding), TransposeLaw,
UnitaryLaw + MaskLaw (to-mask-and-back = T^H diag(mask) T: identity for an all-pass mask on the whole band, additive
in the mask).  Binding: each law is replayed as a metamorphic behaviour into focus_fixed_sampling /
unfocus_fixed_sampling / to_fpm_and_back / Wavefront.to_fpm_and_back / Wavefront.babinet, and to-mask-and-back is also
compared in value with the exact T^H diag(mask) T."""
import json
import math
from fractions import Fraction

from . import core, dftlib as D
from .c01 import PHYS, normsq_of

PROP = 'C05'

FIXED = {'quick': dict(Ns=[2, 3, 4, 5], Ms=[3, 4, 6], NQs=[(6, 1), (15, 2), (4, 1)], Ss=[(0, 1), (1, 1), (-3, 2)]),
         'thorough': dict(Ns=[1, 2, 3, 4, 5, 6], Ms=[2, 3, 4, 6, 7], NQs=[(6, 1), (15, 2), (4, 1), (9, 1)], Ss=[(0, 1), (1, 1), (-3, 2), (5, 4)])}
LAWM = {'quick': dict(Ns=range(1, 6), Ms=range(1, 6), Qs=[(1, 1), (2, 1), (3, 2)], Ss=[(0, 1), (-1, 2)]),
        'thorough': dict(Ns=range(1, 7), Ms=range(1, 8), Qs=[(1, 1), (2, 1), (3, 2), (5, 4)], Ss=[(0, 1), (-1, 2), (1, 1)])}
EMBEDS = [(0, 1), (1, 0), (1, 2), (3, 1)]


def phys(rec, ph):
    nq = Fraction(rec['req'][0], rec['req'][1])
    return nq * ph['dxin'] * ph['dxout'] / ph['lam']


def call(fwd, method, f, ph, z, out, shift):
    from prysm import propagation as P
    fn = P.focus_fixed_sampling if fwd else P.unfocus_fixed_sampling
    return fn(f, float(ph['dxin']), float(z), float(ph['lam']), float(ph['dxout']), out, shift=shift, method=method)


def mask_for(m_r, m_c, np, kind):
    y = np.arange(m_r)[:, None]
    x = np.arange(m_c)[None, :]
    if kind == 'ones':
        return np.ones((m_r, m_c))
    if kind == 'real':
        return ((2 * y + 3 * x) % 4 != 0).astype(float) * (1 + ((y + x) % 3) / 4)
    return ((y + 2 * x) % 3).astype(float) / 2 + 1j * (((3 * y + x) % 5) - 2) / 3


def replay_fixed(rec, ctx, np):
    from prysm import propagation as P
    from prysm import fttools
    r, c = rec['row'], rec['col']
    fwd = rec['dir'] == 1
    ph = PHYS[(r['n'] + c['m']) % 2]
    z = phys(rec, ph)
    out = (r['m'], c['m'])
    shift = (float(D.qf(c['s']) * ph['dxout']), float(D.qf(r['s']) * ph['dxout']))
    f1 = D.field(r['n'], c['n'], np, cplx=True, salt=1)
    f2 = D.field(r['n'], c['n'], np, cplx=True, salt=6)
    S = float(np.abs(f1).sum() + np.abs(f2).sum()) * math.sqrt(normsq_of(rec)) * 5
    tolv = 2e-9 * S
    name = 'focus_fixed_sampling' if fwd else 'unfocus_fixed_sampling'
    shape_cls = 'sq' if (r['n'] == c['n'] and r['m'] == c['m']) else 'nonsq'
    sh_cls = 'shifted' if (r['s'][0] or c['s'][0]) else 'unshifted'
    for method in ('mdft', 'czt'):
        msgs = []
        try:
            g1 = call(fwd, method, f1.copy(), ph, z, out, shift)
            g2 = call(fwd, method, f2.copy(), ph, z, out, shift)
            a, b = (2 - 1j), (0.5 + 3j)
            gl = call(fwd, method, a * f1 + b * f2, ph, z, out, shift)
            if float(core.maxabs(gl - (a * g1 + b * g2))) > tolv:
                msgs.append(('linearity', 'f(a x + b y) != a f(x) + b f(y) by %.3g' % float(core.maxabs(gl - (a * g1 + b * g2)))))
            for pr, pc in EMBEDS:
                big = fttools.pad2d(f1, out_shape=(r['n'] + pr, c['n'] + pc))
                ge = call(fwd, method, big, ph, z, out, shift)
                if ge.shape != g1.shape or float(core.maxabs(ge - g1)) > tolv:
                    msgs.append(('embedding:+%d,+%d' % (pr % 2, pc % 2), 'embedding in %s changes the output by %.3g' % (big.shape, float(core.maxabs(ge - g1)) if ge.shape == g1.shape else -1)))
                    break
            gt = call(fwd, method, f1.T.copy(), ph, z, (out[1], out[0]), (shift[1], shift[0]))
            if gt.shape != g1.T.shape or float(core.maxabs(gt - g1.T)) > tolv:
                msgs.append(('transpose', 'transposed call is not the transposed output (%.3g)' % (float(core.maxabs(gt - g1.T)) if gt.shape == g1.T.shape else -1)))
        except Exception as ex:
            msgs = [('raised', 'raised %s: %s' % (type(ex).__name__, ex))]
        ctx.replayed(1, key=(name, method, json.dumps(rec['args']), rec['dir']))
        for kind, m in msgs:
            ctx.fail('Fixed:%s:%s:%s:%s:%s' % (name, method, kind, shape_cls, sh_cls),
                     'shape=%s out=%s nQ=%s shift=%s: %s' % ((r['n'], c['n']), out, rec['req'], shift, m), rec)
    if replay_fixed.count % 256 == 0:
        fttools.mdft.clear()
        fttools.czt.clear()
    replay_fixed.count += 1


replay_fixed.count = 1


def replay_mask(rec, ctx, np):
    """to_fpm_and_back against T^H diag(mask) T, all-pass identity on the whole band, Babinet additivity."""
    from prysm import propagation as P
    r, c = rec['row'], rec['col']
    ph = PHYS[(r['n'] + c['n']) % 2]
    z = phys(rec, ph)
    f = D.field(r['n'], c['n'], np, cplx=True, salt=8)
    Er = D.table(rec['rowE'], rec['rowL'], np)
    Ec = D.table(rec['colE'], rec['colL'], np)
    nsq = normsq_of(rec)
    S = float(np.abs(f).sum()) * 20
    shift = (float(D.qf(c['s']) * ph['dxout']), float(D.qf(r['s']) * ph['dxout']))
    shifted = bool(r['s'][0] or c['s'][0])
    whole_band = (r['m'] * r['q'][1] == r['n'] * r['q'][0] and c['m'] * c['q'][1] == c['n'] * c['q'][0]
                  and r['q'][0] >= r['q'][1] and c['q'][0] >= c['q'][1])
    shape_cls = 'sq' if (r['n'] == c['n']) else 'nonsq'
    for method in ('mdft', 'czt'):
        msgs = []
        try:
            res = {}
            for kind in ('ones', 'real', 'complex'):
                mk = mask_for(r['m'], c['m'], np, kind)
                exp = (Er.conj().T @ (mk * (Er @ f @ Ec.T)) @ Ec.conj()) * nsq
                got = P.to_fpm_and_back(f.copy(), float(ph['dxin']), float(z), float(ph['lam']), mk, float(ph['dxout']), shift=shift, method=method)
                res[kind] = got
                if got.shape != exp.shape or float(core.maxabs(got - exp)) > 2e-9 * S:
                    msgs.append(('value:%s-mask' % kind, 'differs from T^H diag(mask) T by %.3g' % (float(core.maxabs(got - exp)) if got.shape == exp.shape else -1)))
                if kind == 'ones' and whole_band and float(core.maxabs(got - f)) > 2e-9 * S:
                    msgs.append(('allpass', 'all-pass mask over the whole band does not return the field (%.3g)' % float(core.maxabs(got - f))))
                if kind == 'real':
                    comp = P.to_fpm_and_back(f.copy(), float(ph['dxin']), float(z), float(ph['lam']), 1 - mk, float(ph['dxout']), shift=shift, method=method)
                    if float(core.maxabs(got + comp - res['ones'])) > 2e-9 * S:
                        msgs.append(('babinet', 'mask + complement != unmasked (%.3g)' % float(core.maxabs(got + comp - res['ones']))))
                    if not shifted:
                        w = P.Wavefront(f.copy(), float(ph['lam']), float(ph['dxin']))
                        wb = w.to_fpm_and_back(float(z), mk, float(ph['dxout']), method=method)
                        if float(core.maxabs(wb.data - got)) > 1e-12 * S:
                            msgs.append(('Wavefront', 'Wavefront.to_fpm_and_back differs from the function'))
                        bab = w.babinet(float(z), None, mk, float(ph['dxout']), method=method)
                        # babinet(fpm) = field - to_fpm_and_back(1 - fpm)
                        if float(core.maxabs(bab.data - (f - comp))) > 2e-9 * S:
                            msgs.append(('Wavefront.babinet', 'babinet != field - to_fpm_and_back(1-mask)'))
        except Exception as ex:
            msgs.append(('raised', 'raised %s: %s' % (type(ex).__name__, ex)))
        ctx.replayed(1, key=('to_fpm_and_back', method, json.dumps(rec['args'])))
        for kind, m in msgs:
            ctx.fail('Mask:to_fpm_and_back:%s:%s:%s' % (method, kind.split(':')[0] if method == 'czt' and shifted else kind, 'shifted' if shifted else shape_cls),
                     'pupil=%s mask=%s nQ=%s shift=%s: %s' % ((r['n'], c['n']), (r['m'], c['m']), rec['req'], shift, m), rec)


def run(ctx, replay=None, selftest=False):
    import numpy as np
    for m in ('Cyclo', 'GridLib', 'Rat', 'Dft'):
        core.sany(m)
    if replay:
        rec = json.load(open(replay))['record']
        c, d = D.dft_cfg('axis', [2], [2], [(1, 1)], [(0, 1)], invs=('EmbedLaw', 'TransposeLaw', 'MaskLaw'))
        ctx.tlc('Dft', c, defs=d, name='replay-smoke', emit=False)
        replay_fixed(rec, ctx, np)
        if rec['dir'] == 1:
            replay_mask(rec, ctx, np)
        return
    L, X = LAWM[ctx.tier], FIXED[ctx.tier]
    c, d = D.dft_cfg('axis', L['Ns'], L['Ms'], L['Qs'], L['Ss'], invs=('EmbedLaw', 'TransposeLaw', 'MaskLaw', 'UnitaryLaw', 'ConjLaw'))
    ctx.tlc('Dft', c, defs=d, name='embedding-mask-laws', emit=False, require_actions=('Compute',))
    recs = D.emit_partitioned(ctx, 'fixed', 'fixed', X['Ns'], X['Ms'], [(1, 1)], X['Ss'], nqs=X['NQs'])
    for i, rec in enumerate(recs):
        replay_fixed(rec, ctx, np)
    # masks: whole-band configurations (mask has nQ samples per axis) and partial bands
    mm = dict(X, Ms=sorted({q[0] // q[1] for q in X['NQs'] if q[0] % q[1] == 0} | {3, 5}))
    recs2 = D.emit_partitioned(ctx, 'mask', 'fixed', mm['Ns'], mm['Ms'], [(1, 1)], mm['Ss'], nqs=X['NQs'], dirs=(1,))
    for rec in recs2:
        replay_mask(rec, ctx, np)
    from prysm import fttools
    fttools.mdft.clear()
    fttools.czt.clear()
    if selftest:
        rec = json.loads(json.dumps(next(r for r in recs2 if r['row']['n'] >= 3 and r['row']['s'][0] == 0 and r['col']['s'][0] == 0)))
        rec['rowE'][-1][-1] = (rec['rowE'][-1][-1] + 1) % rec['rowL']     # one kernel entry (a per-output phase would cancel)
        before = len(ctx.fails)
        replay_mask(rec, ctx, np)
        if len(ctx.fails) == before:
            raise core.Machinery('selftest: corrupted kernel table not rejected')
        del ctx.fails[before:]
        ctx.notes.append('selftest: corrupted kernel table rejected by the to_fpm_and_back value comparison')
    ctx.sample({'kind': 'fixed', 'row': recs[0]['row'], 'col': recs[0]['col'], 'nQ': recs[0]['req'], 'laws': ['linearity', 'embedding', 'transpose']})
    ctx.sample({'kind': 'mask', 'row': recs2[-1]['row'], 'col': recs2[-1]['col'], 'nQ': recs2[-1]['req']})
    ctx.bounds = {'laws': {k: list(v) for k, v in L.items()}, 'fixed': {k: list(v) for k, v in X.items()}, 'embeddings': EMBEDS}
    ctx.assumptions += ['physical arguments chosen so that lambda z/(dx_in dx_out) = nQ on both axes (two unit menus)',
                        'to-mask-and-back is specified as T^H diag(mask) T with T the textbook (shifted) kernel']

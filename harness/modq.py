"""Interpretation of ModQ values (spec/ModQ.tla): residues modulo sixteen primes -> exact Fraction.
CRT, then rational reconstruction (Wang), then a self-check that the reconstructed rational has exactly the given residues."""
from fractions import Fraction
from functools import lru_cache

PRIMES = (46337, 46327, 46309, 46307, 46301, 46279, 46273, 46271, 46261, 46237, 46229, 46219, 46199, 46187, 46183, 46181)
M = 1
for _p in PRIMES:
    M *= _p
_CRT = []
for _p in PRIMES:
    _m = M // _p
    _CRT.append(_m * pow(_m, -1, _p))


class Unreconstructable(Exception):
    pass


def _reconstruct(res, primes):
    """Wang's rational reconstruction from the residues modulo `primes` (None if there is no small rational)."""
    Mp = 1
    for p in primes:
        Mp *= p
    a = 0
    for r, p in zip(res, primes):
        m = Mp // p
        a += r * m * pow(m, -1, p)
    a %= Mp
    if a == 0:
        return Fraction(0)
    bound = int((Mp // 2) ** 0.5)
    r0, r1, t0, t1 = Mp, a, 0, 1
    while r1 > bound:
        q = r0 // r1
        r0, r1 = r1, r0 - q * r1
        t0, t1 = t1, t0 - q * t1
    if t1 == 0 or abs(t1) > bound:
        return None
    return Fraction(r1, t1) if t1 > 0 else Fraction(-r1, -t1)


def to_fraction(res, guard=False):
    f = _to_fraction_all(res)
    if not guard:
        return f
    # a rational that is too large for the carrier still "reconstructs" to SOME small-looking rational with the right residues.
    # Guard: the reconstruction from fifteen of the sixteen primes must give the same rational; a value inside the (smaller)
    # fifteen-prime bound reconstructs identically from both, a value outside it does not (except with negligible probability)
    if _reconstruct(res[:-1], PRIMES[:-1]) != f:
        raise Unreconstructable('value beyond the reconstruction bound of the carrier (15- and 16-prime reconstructions disagree)')
    return f


def _to_fraction_all(res):
    if len(res) != len(PRIMES):
        raise Unreconstructable('expected %d residues, got %d' % (len(PRIMES), len(res)))
    a = sum(r * c for r, c in zip(res, _CRT)) % M
    if a == 0:
        return Fraction(0)
    # rational reconstruction: find n/d with |n|, d < sqrt(M/2) and n = a d (mod M)
    bound = int((M // 2) ** 0.5)
    r0, r1 = M, a
    t0, t1 = 0, 1
    while r1 > bound:
        q = r0 // r1
        r0, r1 = r1, r0 - q * r1
        t0, t1 = t1, t0 - q * t1
    n, d = r1, t1
    if d == 0 or abs(d) > bound:
        raise Unreconstructable('no rational with numerator and denominator below 2^%d' % bound.bit_length())
    if d < 0:
        n, d = -n, -d
    f = Fraction(n, d)
    for r, p in zip(res, PRIMES):
        if (f.numerator * pow(f.denominator, -1, p)) % p != r:
            raise Unreconstructable('self-check failed modulo %d' % p)
    return f


def from_fraction(f):
    f = Fraction(f)
    return [(f.numerator * pow(f.denominator, -1, p)) % p for p in PRIMES]

"""C02 -- propagators conserve energy and invert each other.

Specs: Dft.tla (UnitaryLaw, RoundTripLaw, FftLaw: exact in Z[zeta_L]), FreeSpace.tla (exact phase table of the
angular-spectrum transfer function and its algebra).  Binding: value conformance of focus / unfocus / mdft / czt /
angular_spectrum(_transfer_function) / Wavefront.free_space to the exact tables, and the laws themselves replayed
as metamorphic behaviours on Gaussian-integer fields (whose energy is an exact integer)."""
import json
import math
from fractions import Fraction

from . import core, dftlib as D

PROP = 'C02'

BAND = {'quick': dict(Ns=range(1, 7), Qs=[(1, 1), (2, 1), (3, 1), (3, 2), (5, 4), (4, 3)]),
        'thorough': dict(Ns=range(1, 11), Qs=[(1, 1), (2, 1), (3, 1), (3, 2), (5, 4), (4, 3), (5, 2), (7, 4)])}
FFT = {'quick': dict(Ns=range(1, 7), Qs=[(1, 1), (2, 1), (3, 1), (3, 2), (5, 4)]),
       'thorough': dict(Ns=range(1, 10), Qs=[(1, 1), (2, 1), (3, 1), (4, 1), (3, 2)])}
FS = {'quick': dict(shapes=[(1, 1), (2, 3), (4, 4), (5, 4), (3, 6)], lams=[(1, 2), (633, 1000)], dxs=[(1, 4), (1, 1)],
                    zs=[(0, 1), (1, 1), (-1, 1), (5, 2), (-5, 2), (3, 1)]),
      'thorough': dict(shapes=[(1, 1), (2, 3), (4, 4), (5, 4), (3, 6), (6, 5), (8, 4), (1, 6)], lams=[(1, 2), (633, 1000), (31, 20)],
                       dxs=[(1, 4), (1, 1), (3, 8)], zs=[(0, 1), (1, 1), (-1, 1), (5, 2), (-5, 2), (3, 1), (4, 1), (-7, 4)])}   # (menus sized to stay inside TLC's 32-bit integers)


def energy(a, np):
    return float((np.abs(a) ** 2).sum())


def close(a, b, scale, rel=1e-9):
    return abs(a - b) <= rel * (abs(scale) + 1e-300)


def band_pairs(ctx, menu):
    """Band-complete axis configurations (m = n Q integer, Q >= 1) paired in 2-D, from Dft.tla 'keys' mode."""
    axes = []
    for n in menu['Ns']:
        for q in menu['Qs']:
            if (n * q[0]) % q[1] == 0:
                axes.append((n, n * q[0] // q[1], q, (0, 1)))
    pairs = []
    for i, a in enumerate(axes):
        for j in (0, 1, 2, 5, 11):
            b = axes[(i * 7 + j) % len(axes)]
            pairs.append((a, b))
    return axes, sorted(set(pairs))


def fs_cfg(m, emit):
    cfg = 'INIT Init\nNEXT Next\nCHECK_DEADLOCK FALSE\nCONSTANTS\n EmitOn = %s\n' % ('TRUE' if emit else 'FALSE')
    if emit:
        cfg += 'INVARIANT Emit\n'
    else:
        cfg += ''.join('INVARIANT %s\n' % i for i in ('ZeroDistance', 'DcIsZero', 'OddInZ', 'Additive', 'EvenInF', 'Normalised'))
    defs = dict(Shapes=D.tup(m['shapes']), Lams=D.tup(m['lams']), Dxs=D.tup(m['dxs']), Zs=D.tup(m['zs']))
    return cfg, defs


def H_of(phi, np):
    """exp(i pi phi) with exact reduction of phi modulo 2."""
    out = np.empty((len(phi), len(phi[0])), dtype=complex)
    for i, rowv in enumerate(phi):
        for j, (n, d) in enumerate(rowv):
            fr = Fraction(n, d) % 2
            if fr == 0:
                out[i, j] = 1
            elif fr == 1:
                out[i, j] = -1
            elif fr == Fraction(1, 2):
                out[i, j] = 1j
            elif fr == Fraction(3, 2):
                out[i, j] = -1j
            else:
                a = math.pi * float(fr)
                out[i, j] = complex(math.cos(a), math.sin(a))
    return out


def replay_band(rec, ctx, np, precision=64):
    from prysm import fttools
    r, c = rec['row'], rec['col']
    f = D.field(r['n'], c['n'], np, cplx=True, salt=1)
    if precision == 32:
        f = f.astype(np.complex64)
    rel = 1e-9 if precision == 64 else 2e-4
    E0 = energy(f, np)
    Q, out, sh = (tuple(D.qf(q) for q in rec['args']['Q']), tuple(rec['args']['out']), (0, 0))
    shp = (r['n'], c['n'])
    sgn = 'sq' if r == c else 'nonsq'
    exp = D.expected(rec, f.astype(complex), np)
    for name, fw, bw in (('mdft', fttools.mdft.dft2, fttools.mdft.idft2), ('czt', fttools.czt.czt2, fttools.czt.iczt2)):
        try:
            F = fw(f.copy(), Q, out, sh)
            back = bw(F, 1, shp, sh)
            msgs = []
            if float(core.maxabs(F - exp)) > rel * float(np.abs(f).sum()):
                msgs.append(('value', 'forward value differs from exact kernel by %.3g' % float(core.maxabs(F - exp))))
            if not close(energy(F, np), E0, E0, rel * 10):
                msgs.append(('energy', 'energy %.12g after transform, %.12g before' % (energy(F, np), E0)))
            if back.shape != f.shape or float(core.maxabs(back - f)) > rel * 10 * float(np.abs(f).sum()):
                msgs.append(('inverse', 'inverse(forward(f)) differs from f by %.3g' % (float(core.maxabs(back - f)) if back.shape == f.shape else -1)))
        except Exception as ex:
            msgs = [('raised', 'raised %s: %s' % (type(ex).__name__, ex))]
        ctx.replayed(1, key=('band', name, json.dumps(rec['args']), precision))
        for kind, m in msgs:
            ctx.fail('Unitary:%s:%s:%s:%s%s' % (name, kind, sgn, D.cls_axis(r), '' if precision == 64 else ':float32'),
                     'shape=%s Q=%s out=%s: %s' % (shp, Q, out, m), rec)
    fttools.mdft.clear()
    fttools.czt.clear()


def replay_fft(rec, ctx, np, precision=64):
    from prysm import propagation as P, fttools
    r, c = rec['row'], rec['col']
    Q = D.qf(rec['req'])
    f = D.field(r['n'], c['n'], np, cplx=True, salt=4)
    if precision == 32:
        f = f.astype(np.complex64)
    rel = 1e-9 if precision == 64 else 2e-4
    E0 = energy(f, np)
    fwd = rec['dir'] == 1
    a, b = (P.focus, P.unfocus) if fwd else (P.unfocus, P.focus)
    exp = D.expected(rec, f.astype(complex), np)
    msgs = []
    try:
        F = a(f.copy(), Q)
        if F.shape != exp.shape or float(core.maxabs(F - exp)) > rel * float(np.abs(f).sum()):
            msgs.append(('value', 'differs from exact kernel'))
        if not close(energy(F, np), E0, E0, rel * 10):
            msgs.append(('energy', 'energy %.12g after, %.12g before (Q=%s)' % (energy(F, np), E0, Q)))
        back = b(F, 1)
        padded = fttools.pad2d(f, Q=Q) if Q != 1 else f
        if back.shape != padded.shape or float(core.maxabs(back - padded)) > rel * 10 * float(np.abs(f).sum()):
            msgs.append(('inverse', 'inverse(forward(f)) is not the zero-padded f'))
        wa = P.Wavefront(f.copy(), .5, .25, space='pupil' if fwd else 'psf')
        wF = wa.focus(7., Q=Q) if fwd else wa.unfocus(7., Q=Q)
        wb = wF.unfocus(7., Q=1) if fwd else wF.focus(7., Q=1)
        if float(core.maxabs(wF.data - exp)) > rel * float(np.abs(f).sum()) or float(core.maxabs(wb.data - padded)) > rel * 10 * float(np.abs(f).sum()):
            msgs.append(('Wavefront', 'Wavefront.focus/unfocus differ from the function route'))
    except Exception as ex:
        msgs = [('raised', 'raised %s: %s' % (type(ex).__name__, ex))]
    ctx.replayed(1, key=('fft', r['n'], c['n'], tuple(rec['req']), rec['dir'], precision))
    for kind, m in msgs:
        ctx.fail('Unitary:%s:%s:%s%s' % ('focus' if fwd else 'unfocus', kind, 'sq' if r['n'] == c['n'] else 'nonsq', '' if precision == 64 else ':float32'),
                 'shape=%s Q=%s: %s' % ((r['n'], c['n']), Q, m), rec)


def replay_fs_far(ctx, np):
    """FreeSpace.tla's algebra (every entry of the transfer function is a root of unity: unit modulus; distances add; the
    negated distance undoes) at distances far beyond the exact menu, where only the laws -- not the phase tables -- are
    compared: aliasing-scale distances z >> N dx^2 / lambda are ordinary inputs."""
    from prysm import propagation as P
    rng = np.random.RandomState(ctx.seed + 17)
    for shp, lam, dx, zs in (((6, 8), 0.6328, 0.01, (5.0, 50.0, 2000.0)), ((5, 4), 0.5, 0.25, (1e3, 1e5)), ((7, 7), 1.55, 0.05, (300.0, 4e4))):
        f = rng.normal(size=shp) + 1j * rng.normal(size=shp)
        for z in zs:
            try:
                tf = np.asarray(P.angular_spectrum_transfer_function(shp, lam, dx, z))
                tfn = np.asarray(P.angular_spectrum_transfer_function(shp, lam, dx, -z))
                tf2 = np.asarray(P.angular_spectrum_transfer_function(shp, lam, dx, 2 * z))
                g = np.asarray(P.angular_spectrum(f.copy(), lam, dx, z, Q=1))
                back = np.asarray(P.angular_spectrum(g.copy(), lam, dx, -z, Q=1))
                msgs = []
                if core.maxabs(np.abs(tf) - 1) > 1e-9:
                    msgs.append(('unit-modulus', 'max ||H| - 1| = %.3g' % core.maxabs(np.abs(tf) - 1)))
                if core.maxabs(tf * tfn - 1) > 1e-6:
                    msgs.append(('negated-distance', 'H(z) H(-z) != 1 (%.3g)' % core.maxabs(tf * tfn - 1)))
                if core.maxabs(tf * tf - tf2) > 1e-6:
                    msgs.append(('additive', 'H(z)^2 != H(2z) (%.3g)' % core.maxabs(tf * tf - tf2)))
                if abs(float((np.abs(g) ** 2).sum()) - float((np.abs(f) ** 2).sum())) > 1e-9 * float((np.abs(f) ** 2).sum()):
                    msgs.append(('energy', 'energy %r -> %r' % (float((np.abs(f) ** 2).sum()), float((np.abs(g) ** 2).sum()))))
                if core.maxabs(back - f) > 1e-6:
                    msgs.append(('undo', 'propagating by -z does not return the field (%.3g)' % core.maxabs(back - f)))
                for kind, m in msgs:
                    ctx.fail('FreeSpace:far:%s' % kind, 'shape=%s lambda=%g dx=%g z=%g: %s' % (shp, lam, dx, z, m), {'far': [list(shp), lam, dx, z]})
            except Exception as ex:
                import traceback
                if not any('/prysm/' in fr_.filename for fr_ in traceback.extract_tb(ex.__traceback__)):
                    raise
                ctx.fail('FreeSpace:far:raised', 'shape=%s z=%g: %s: %s' % (shp, z, type(ex).__name__, ex), {'far': [list(shp), lam, dx, z]})
            ctx.replayed(1, key=('far', shp, z))


def replay_fs(rec, ctx, np, precision=64):
    from prysm import propagation as P
    shp = tuple(rec['shape'])
    lam, dx = (D.qf(rec['lam']), D.qf(rec['dx']))
    z1, z2 = D.qf(rec['z1']), D.qf(rec['z2'])
    H1, H2, H12 = (H_of(rec[k], np) for k in ('phi1', 'phi2', 'phi12'))
    f = D.field(shp[0], shp[1], np, cplx=True, salt=2)
    if precision == 32:
        f = f.astype(np.complex64)
    rel = 1e-9 if precision == 64 else 5e-4
    E0 = energy(f, np)
    S = float(np.abs(f).sum())
    sgn = 'sq' if shp[0] == shp[1] else 'nonsq'
    msgs = []
    try:
        for z, H, tag in ((z1, H1, 'z1'), (z2, H2, 'z2')):
            tf = P.angular_spectrum_transfer_function(shp, lam, dx, z)
            if tf.shape != H.shape or float(core.maxabs(tf - H)) > (1e-9 if precision == 64 else 1e-3):
                msgs.append(('tf', 'transfer function differs from exp(i pi phi) at z=%s by %.3g' % (z, float(core.maxabs(tf - H)) if tf.shape == H.shape else -1)))
            if shp[0] == shp[1]:
                tfs = P.angular_spectrum_transfer_function(shp[0], lam, dx, z)
                if float(core.maxabs(tfs - H)) > (1e-9 if precision == 64 else 1e-3):
                    msgs.append(('tf-scalar', 'scalar samples form differs'))
        ref1 = np.fft.ifft2(np.fft.fft2(f) * H1)
        g1 = P.angular_spectrum(f.copy(), lam, dx, z1, Q=1)
        if float(core.maxabs(g1 - ref1)) > rel * S:
            msgs.append(('value', 'angular_spectrum differs from IDFT.H.DFT by %.3g' % float(core.maxabs(g1 - ref1))))
        if not close(energy(g1, np), E0, E0, rel * 10):
            msgs.append(('energy', 'energy %.12g after, %.12g before' % (energy(g1, np), E0)))
        g0 = P.angular_spectrum(f.copy(), lam, dx, 0., Q=1)
        if float(core.maxabs(g0 - f)) > rel * S:
            msgs.append(('zero', 'z=0 is not the identity'))
        gb = P.angular_spectrum(g1, lam, dx, -z1, Q=1)
        if float(core.maxabs(gb - f)) > rel * 10 * S:
            msgs.append(('undo', 'propagating by -z does not undo z=%s' % z1))
        g12 = P.angular_spectrum(g1, lam, dx, z2, Q=1)
        gs = P.angular_spectrum(f.copy(), lam, dx, z1 + z2, Q=1)
        ref12 = np.fft.ifft2(np.fft.fft2(f) * H12)
        if float(core.maxabs(g12 - gs)) > rel * 10 * S or float(core.maxabs(gs - ref12)) > rel * S:
            msgs.append(('compose', 'z1 then z2 differs from z1+z2 (%s, %s)' % (z1, z2)))
        # padded route: energy unchanged, result = propagation of the zero-padded field
        gq = P.angular_spectrum(f.copy(), lam, dx, z1, Q=2)
        if not close(energy(gq, np), E0, E0, rel * 10):
            msgs.append(('energy-padded', 'Q=2 energy %.12g vs %.12g' % (energy(gq, np), E0)))
        # explicit transfer function and Wavefront form
        gt = P.angular_spectrum(f.copy(), lam, dx, float('nan'), Q=1, tf=H1)
        w = P.Wavefront(f.copy(), lam, dx).free_space(dz=z1, Q=1)
        if float(core.maxabs(gt - ref1)) > rel * S or float(core.maxabs(w.data - ref1)) > rel * S or w.dx != dx:
            msgs.append(('forms', 'tf= / Wavefront.free_space forms differ'))
    except Exception as ex:
        msgs = [('raised', 'raised %s: %s' % (type(ex).__name__, ex))]
    ctx.replayed(1, key=('fs', shp, tuple(rec['lam']), tuple(rec['dx']), tuple(rec['z1']), tuple(rec['z2']), precision))
    for kind, m in msgs:
        ctx.fail('FreeSpace:%s:%s%s' % (kind, sgn, '' if precision == 64 else ':float32'),
                 'shape=%s lam=%s dx=%s z1=%s z2=%s: %s' % (shp, lam, dx, z1, z2, m), rec)


def run(ctx, replay=None, selftest=False):
    import numpy as np
    for m in ('Cyclo', 'GridLib', 'Rat', 'Dft', 'FreeSpace'):
        core.sany(m)
    if replay:
        rec = json.load(open(replay))['record']
        c, d = D.dft_cfg('axis', [2], [2], [(1, 1)], [(0, 1)], invs=('UnitaryLaw', 'RoundTripLaw'))
        ctx.tlc('Dft', c, defs=d, name='replay-smoke', emit=False)
        if 'far' in rec:
            replay_fs_far(ctx, np)
        elif 'phi1' in rec:
            replay_fs(rec, ctx, np)
        elif rec.get('kind') == 'fft':
            replay_fft(rec, ctx, np)
        else:
            replay_band(rec, ctx, np)
        return
    B, F, S = BAND[ctx.tier], FFT[ctx.tier], FS[ctx.tier]
    axes, pairs = band_pairs(ctx, B)
    # laws: unitarity / round trip of every band-complete axis, both directions (exact cyclotomic arithmetic)
    ms = sorted({a[1] for a in axes})
    c, d = D.dft_cfg('axis', B['Ns'], ms, B['Qs'], [(0, 1), (1, 2)], invs=('UnitaryLaw', 'RoundTripLaw', 'ConjLaw'))
    ctx.tlc('Dft', c, defs=d, name='band-laws', emit=False, require_actions=('Compute',))
    c, d = D.dft_cfg('fft', F['Ns'], [1], F['Qs'], [(0, 1)], invs=('FftLaw', 'UnitaryLaw', 'RoundTripLaw'))
    ctx.tlc('Dft', c, defs=d, name='fft-laws', emit=False)
    c, d = fs_cfg(S, emit=False)
    ctx.tlc('FreeSpace', c, defs=d, name='freespace-laws', emit=False, require_actions=('Compute',))
    # behaviours
    cfgk, defk = D.dft_cfg('keys', [1], [1], [(1, 1)], [(0, 1)], emit=True, keypairs=pairs, dirs=(1,))
    rb = ctx.tlc('Dft', cfgk, defs=defk, name='band-pairs:emit', coverage=False)
    rf = D.emit_partitioned(ctx, 'fft', 'fft', F['Ns'], [1], F['Qs'], [(0, 1)])
    c, d = fs_cfg(S, emit=True)
    rs = ctx.tlc('FreeSpace', c, defs=d, name='freespace:emit', coverage=False)
    # precision is a configuration AND a history: single precision first, so that anything built under it and wrongly
    # kept (a memoised transfer function, a cached basis) is exposed by the double-precision pass that follows
    from prysm.conf import config
    try:
        for p in ((64,) if ctx.tier == 'quick' else (32, 64)):
            config.precision = p
            for rec in rb.records:
                replay_band(rec, ctx, np, p)
            for rec in rf:
                replay_fft(rec, ctx, np, p)
        for rec in rs.records:
            for p in (32, 64):          # back to back, so that even a small memo still holds the single-precision result
                config.precision = p
                replay_fs(rec, ctx, np, p)
    finally:
        config.precision = 64
    replay_fs_far(ctx, np)
    if selftest:
        # binding: a transfer function with a 0.1% wrong wavelength must be rejected by the value comparison
        rec = next(r for r in rs.records if r['z1'][0] != 0 and r['shape'][0] > 2)
        bad = json.loads(json.dumps(rec))
        bad['phi1'] = [[[n * 1001, d * 1000] for n, d in rowv] for rowv in bad['phi1']]
        before = len(ctx.fails)
        replay_fs(bad, ctx, np)
        if len(ctx.fails) == before:
            raise core.Machinery('selftest: corrupted phase table not rejected')
        del ctx.fails[before:]
        ctx.notes.append('selftest: corrupted free-space phase table rejected')
    ctx.sample({'kind': 'band', 'row': rb.records[0]['row'], 'col': rb.records[0]['col']})
    ctx.sample({'kind': 'freespace', 'shape': rs.records[-1]['shape'], 'lam': rs.records[-1]['lam'], 'dx': rs.records[-1]['dx'],
                'z1': rs.records[-1]['z1'], 'z2': rs.records[-1]['z2'], 'phi1': rs.records[-1]['phi1'][:2]})
    ctx.bounds = {'band': {k: list(v) for k, v in B.items()}, 'fft': {k: list(v) for k, v in F.items()}, 'freespace': S, 'precisions': [32, 64]}
    ctx.assumptions += ['Gaussian-integer fields: the energy before a transform is an exact integer',
                        'free-space phases are reduced modulo 2 exactly before evaluation']

"""C10 -- fast modal sums equal explicit sums; least-squares fitting inverts synthesis.

Specs: ModalSum.tla (tensor contraction, the Q2d coefficient packer as a data-structure transformation, lstsq with an exact
rank guard), Clenshaw.tla (j = 0 row: the Clenshaw sum equals the explicit sum for every coefficient vector), QPoly.tla /
OrthoPoly.tla (exact per-mode values from which explicit sums are formed).  Binding: sum_of_2d_modes, jacobi_sum_clenshaw,
clenshaw_qbfs, compute_z_zprime_Qbfs/_Qcon/_Q2d (sparse azimuthal content), Q2d_nm_c_to_a_b, lstsq, Interferogram.pvr."""
import itertools
import json
import math
from fractions import Fraction

from . import core, dftlib as D, modq, polylib as PL, qpolylib as QL
from .c09 import cl_cfg, replay_clenshaw, q_tables

PROP = 'C10'
SVECS = [(2,), (-1,), (1, -1), (0, 3), (1, 2, -1), (0, 0, 2), (0, 0, 0, 1), (3, 0, -2, 1), (1, -1, 2, 0, 3), (0, 0, 0, 0, 0, 2)]
WEIGHTS = [(0,), (3,), (1, -2), (0, 5), (0, 0, 0), (1, 0, -1), (2, 3, 1, -4), (0, 0, 0, 7, 0)]
TERMS = [
    [(0, 0, 2)], [(2, 0, -1)], [(0, 1, 3)], [(1, -1, 2)], [(0, 2, 1)], [(0, -2, 1)],                     # single terms
    [(0, 0, 1), (1, 0, 2), (0, 1, 3), (1, 1, -1)], [(0, 1, 2), (2, 1, 1)],                               # cosine only
    [(0, -1, 2), (1, -1, 1)], [(0, -2, 5)],                                                               # sine only
    [(0, 1, 1), (0, -1, 2)], [(2, 1, 1), (0, -1, 2)], [(0, 1, 1), (3, -1, 2)],                           # mixed, unequal radial lengths
    [(0, 2, 1), (0, -1, 2)], [(1, -2, 3), (0, 1, 1)], [(0, 0, 1), (0, -2, 1)],                           # different |m| per family
    [(1, 0, 2), (0, 1, 1), (1, -1, -2), (0, 2, 3), (2, -2, 1)], [(0, 3, 1)], [(0, -3, 1), (1, 1, 2)],
    [(0, 1, 1), (0, 1, 4)], [(1, 0, 0), (0, 1, 2)],                                                       # repeated term; explicit zero
]


def seqs(vs):
    return '{%s}' % ', '.join('<<%s>>' % ', '.join(map(str, v)) for v in vs)


def fit_cases(tier):
    out = []
    ps = (6, 9) if tier == 'quick' else (6, 9, 12)
    for k in (1, 2, 3):
        for p in ps:
            invs = [()] + [(i,) for i in range(1, p + 1)] + ([(1, 2), (2, p), (1, p, 3)] if tier == 'quick' else list(itertools.combinations(range(1, p + 1), 2))[:40])
            invs = invs + [tuple(range(1, p - 1)), tuple(range(2, p + 1))]      # two / one valid samples left: rank-deficient for k = 3 / k >= 2
            for inv in invs:
                for c in ((2, -1, 3)[:k], (0, 1, 0)[:k]):
                    out.append('[k |-> %d, p |-> %d, inv |-> {%s}, c |-> <<%s>>]' % (k, p, ', '.join(map(str, inv)), ', '.join(map(str, c))))
    return out


def ms_cfg(mode, tier, emit):
    c = 'INIT Init\nNEXT Next\nCHECK_DEADLOCK FALSE\nCONSTANTS\n Mode = "%s"\n EmitOn = %s\n' % (mode, 'TRUE' if emit else 'FALSE')
    c += 'INVARIANT Emit\n' if emit else 'INVARIANT SumLaw\nINVARIANT PackLaw\nINVARIANT LstsqLaw\n'
    d = dict(Shapes=D.tup([(1, 1), (2, 3), (3, 2), (4, 4)]), Weights=seqs(WEIGHTS),
             TermLists='{%s}' % ', '.join('<<%s>>' % ', '.join('<<%d, %d, %d>>' % t for t in tl) for tl in TERMS),
             FitCases='{%s}' % ', '.join(fit_cases(tier)))
    return c, d


def replay_sum(rec, ctx, np, P):
    modes = np.array(rec['modes'], dtype=float)
    w = np.array(rec['w'], dtype=float)
    want = np.array(rec['result'], dtype=float)
    fails = []
    try:
        for form, mm, ww in (('array', modes, w), ('list', [m for m in modes], list(w))):
            got = P.sum_of_2d_modes(mm, ww)
            if got.shape != want.shape or not np.array_equal(got, want):
                kind = 'single' if len(w) == 1 else ('sparse' if (w == 0).any() else 'dense')
                fails.append(('sum_of_2d_modes:%s' % kind, 'w=%s %s: got %s want %s' % (rec['w'], form, np.asarray(got).tolist(), want.tolist())))
                break
    except Exception as ex:
        fails.append(('sum_of_2d_modes:raised', '%s: %s' % (type(ex).__name__, ex)))
    ctx.replayed(1, key=('sum', tuple(rec['shape']), tuple(rec['w'])))
    for k, m in fails:
        ctx.fail('Sum:%s' % k, m[:500], rec)


def content(terms):
    ms = {t[1] for t in terms if t[2] != 0}
    cos, sin, z = any(m > 0 for m in ms), any(m < 0 for m in ms), any(m == 0 for m in ms)
    return ('m0' if z else '') + ('+cos' if cos else '') + ('+sin' if sin else '')


def replay_pack(rec, ctx, np, P):
    from prysm.polynomials import qpoly
    terms = [tuple(t) for t in rec['terms']]
    nms = [(t[0], t[1]) for t in terms]
    coefs = [float(t[2]) for t in terms]
    cls = content(terms)
    fails = []
    try:
        cm0, ams, bms = qpoly.Q2d_nm_c_to_a_b(nms, coefs)
        norm = lambda L: [[float(v) for v in row] for row in L]
        if [float(v) for v in cm0] != [float(v) for v in rec['cm0']] or norm(ams) != norm(rec['am']) or norm(bms) != norm(rec['bm']):
            fails.append(('Q2d_nm_c_to_a_b:structure:%s' % cls, 'got cm0=%s a=%s b=%s want cm0=%s a=%s b=%s' % (list(cm0), norm(ams), norm(bms), rec['cm0'], rec['am'], rec['bm'])))
    except Exception as ex:
        fails.append(('Q2d_nm_c_to_a_b:raised:%s' % cls, '%s: %s' % (type(ex).__name__, ex)))
    # whatever the packer did, the evaluator fed with the SPECIFIED packing must give the explicit sum of the library's own modes
    u = np.array([0.15, 0.4, 0.65, 0.9])
    for th in (0.3, -1.2):
        t = np.full_like(u, th)
        eff = {}
        for n, m, c in terms:
            eff[(n, m)] = float(c)
        want = sum(c * P.Q2d(n, m, u.copy(), t) for (n, m), c in eff.items())
        try:
            z, dr, dt = qpoly.compute_z_zprime_Q2d([float(v) for v in rec['cm0']], [[float(v) for v in r_] for r_ in rec['am']],
                                                   [[float(v) for v in r_] for r_ in rec['bm']], u.copy(), t)
            if core.maxabs(z - want) > 1e-9 * (1 + core.maxabs(want)):
                fails.append(('compute_z_zprime_Q2d:sum:%s' % cls, 'theta=%g: z %s, explicit sum %s' % (th, np.round(z, 8).tolist(), np.round(want, 8).tolist())))
                break
        except Exception as ex:
            fails.append(('compute_z_zprime_Q2d:raised:%s' % cls, '%s: %s' % (type(ex).__name__, ex)))
            break
    ctx.replayed(1, key=('pack', tuple(terms)))
    for k, m in fails:
        ctx.fail('Sum:%s' % k, 'terms=%s: %s' % (terms, m[:500]), rec)


def replay_lstsq(rec, ctx, np, P):
    if not rec['fullrank']:
        ctx.replayed(1, key=('lstsq-skip', rec['nk'], rec['p'], tuple(rec['inv'])))
        return                       # the property only speaks about bases that are independent on the valid samples
    modes = np.array(rec['modes'], dtype=float)
    p = rec['p']
    shape = (2, p // 2) if p % 2 == 0 else (3, p // 3)
    inv = [i - 1 for i in rec['inv']]
    c = np.array(rec['c'], dtype=float)
    fails = []
    for bad in (np.nan, np.inf, -np.inf):
        data = np.array(rec['data'], dtype=float)
        data[inv] = bad
        for form in ('2-D', '1-D'):
            try:
                mm = modes.reshape((len(c),) + shape) if form == '2-D' else modes
                dd = data.reshape(shape) if form == '2-D' else data
                got = np.asarray(P.lstsq(mm, dd), dtype=float)
                if got.shape != c.shape or not np.allclose(got, c, rtol=0, atol=1e-9 * (1 + core.maxabs(c))):
                    fails.append(('lstsq:coefficients:%s' % ('masked' if inv else 'unmasked'), 'invalid=%s filled with %s (%s): got %s want %s' % (rec['inv'], bad, form, got.tolist(), c.tolist())))
            except Exception as ex:
                fails.append(('lstsq:raised:%s' % ('masked' if inv else 'unmasked'), 'invalid=%s filled with %s: %s: %s' % (rec['inv'], bad, type(ex).__name__, ex)))
            if fails:
                break
        if fails or not inv:
            break
    ctx.replayed(1, key=('lstsq', rec['nk'], rec['p'], tuple(rec['inv']), tuple(rec['c'])))
    for k, m in fails:
        ctx.fail('Sum:%s' % k, 'k=%d p=%d: %s' % (rec['nk'], rec['p'], m[:500]), rec)


def replay_forbes_sums(T, ocon, ctx, np, P):
    """clenshaw_qbfs / compute_z_zprime_* values against explicit sums of the EXACT modes of QPoly / OrthoPoly."""
    from prysm.polynomials import qpoly
    xs = np.array([float(p) for p in T[0][0]['pts']])
    inner = (xs > 0) & (xs < 1)
    u = xs[inner]
    for cs in SVECS:
        if len(cs) - 1 > max(T[0]):
            continue
        c = np.array(cs, dtype=float)
        kind = 'len=1' if len(cs) == 1 else ('sparse' if (c == 0).any() else 'dense')
        z = sum(c[n] * np.array(T[0][n]['vals'])[inner] for n in range(len(c)))
        fails = []
        for name, fn in (('clenshaw_qbfs', lambda: qpoly.clenshaw_qbfs(c.copy(), u * u)),
                         ('compute_z_zprime_Qbfs', lambda: qpoly.compute_z_zprime_Qbfs(c.copy(), u.copy(), u * u)[0])):
            try:
                got = fn()
                if core.maxabs(got - z) > 1e-9 * (1 + core.maxabs(z)):
                    fails.append(('%s:%s' % (name, kind), 'got %s, explicit sum %s' % (np.round(got, 8).tolist(), np.round(z, 8).tolist())))
            except Exception as ex:
                fails.append(('%s:raised:%s' % (name, kind), '%s: %s' % (type(ex).__name__, ex)))
        if ocon and len(cs) - 1 <= max(ocon):
            zc = sum(c[n] * np.array(ocon[n]['vals'])[inner] for n in range(len(c)))
            try:
                got = qpoly.compute_z_zprime_Qcon(c.copy(), u.copy(), u * u)[0]
                if core.maxabs(got - zc) > 1e-9 * (1 + core.maxabs(zc)):
                    fails.append(('compute_z_zprime_Qcon:%s' % kind, 'got %s, explicit sum %s' % (np.round(got, 8).tolist(), np.round(zc, 8).tolist())))
            except Exception as ex:
                fails.append(('compute_z_zprime_Qcon:raised:%s' % kind, '%s: %s' % (type(ex).__name__, ex)))
        ctx.replayed(1, key=('forbes', tuple(cs)))
        for k, m in fails:
            ctx.fail('Sum:%s' % k, 'coefs=%s: %s' % (list(cs), m[:500]), {'coefs': list(cs)})


def replay_pvr(ctx, np):
    """Interferogram.pvr consumes lstsq + sum_of_2d_modes: a surface synthesised from the first Fringe terms inside the unit
    circle has no residual, so PVr = PV of the surface over the valid samples."""
    from prysm.interferogram import Interferogram
    from prysm.coordinates import make_xy_grid, cart_to_polar
    from prysm.polynomials import zernike_nm, fringe_to_nm
    for n in (32, 33):
        x, y = make_xy_grid(n, diameter=2)
        r, t = cart_to_polar(x, y)
        z = sum(w * zernike_nm(*fringe_to_nm(j), r, t, norm=False) for j, w in ((1, 3.0), (4, 20.0), (5, -7.0), (9, 4.0)))
        igram = Interferogram(z.copy(), dx=x[0, 1] - x[0, 0])
        try:
            got = igram.pvr()
            rn = r / r[n - 1, n // 2]
            want = z[rn <= 1].max() - z[rn <= 1].min()
            if abs(got - want) > 1e-6 * abs(want):
                ctx.fail('Sum:Interferogram.pvr:%s' % ('even' if n % 2 == 0 else 'odd'), 'n=%d: pvr %r, PV of the synthesised surface %r' % (n, got, want), {'n': n})
        except Exception as ex:
            ctx.fail('Sum:Interferogram.pvr:raised', 'n=%d: %s: %s' % (n, type(ex).__name__, ex), {'n': n})
        ctx.replayed(1, key=('pvr', n))


def run(ctx, replay=None, selftest=False):
    import numpy as np
    import prysm.polynomials as P
    for m in ('ModQ', 'PolyDefs', 'OrthoPoly', 'QPoly', 'Clenshaw', 'ModalSum'):
        core.sany(m)
    fns = {'sum': replay_sum, 'pack': replay_pack, 'lstsq': replay_lstsq}
    if replay:
        rec = json.load(open(replay))['record']
        c, d = ms_cfg('pack', 'quick', False)
        ctx.tlc('ModalSum', c, defs=d, name='replay-smoke', emit=False)
        if rec.get('k') in fns:
            fns[rec['k']](rec, ctx, np, P)
        elif 'top' in rec:
            replay_clenshaw(rec, ctx, np, P)
        else:
            raise core.Machinery('Forbes-sum cases are replayed by the full check')
        return
    recs = {}
    for mode in ('sum', 'pack', 'lstsq'):
        c, d = ms_cfg(mode, ctx.tier, False)
        ctx.tlc('ModalSum', c, defs=d, name=mode + '-laws', emit=False, require_actions=('Compute',))
        c, d = ms_cfg(mode, ctx.tier, True)
        r = ctx.tlc('ModalSum', c, defs=d, name=mode + ':emit', coverage=False, count=False)
        recs[mode] = r.records
        for rec in r.records:
            fns[mode](rec, ctx, np, P)
    if not any(r['fullrank'] for r in recs['lstsq']) or all(r['fullrank'] for r in recs['lstsq']):
        raise core.Machinery('lstsq menu must contain both full-rank and rank-deficient cases')
    # Clenshaw sums (j = 0): machine law + conformance
    c, d = cl_cfg(False, ctx.tier, maxj=0, svecs=SVECS)
    ctx.tlc('Clenshaw', c, defs=d, name='clenshaw-sum-laws', emit=False, coverage=False)
    c, d = cl_cfg(True, ctx.tier, maxj=0, svecs=SVECS)
    rc = ctx.tlc('Clenshaw', c, defs=d, name='clenshaw-sum:emit', coverage=False, count=False)
    for rec in rc.records:
        replay_clenshaw(rec, ctx, np, P)
    # Forbes sums from exact modes
    qrecs = QL.run_spec(ctx, ctx.tier)
    T = q_tables(qrecs)
    cs_q = [('qcon', (0, 1), (0, 1))]
    cq, dq = PL.cfg(cs_q, 5 if ctx.tier == 'quick' else 9, True)
    rq = ctx.tlc('OrthoPoly', cq, defs=dq, name='qcon:emit', coverage=False)
    ocon = {}
    for rec in rq.records:
        e = PL.decode(rec)
        ocon[e['n']] = {'vals': [float(v) for v in e['vals']], 'pts': e['pts']}
    replay_forbes_sums(T, ocon, ctx, np, P)
    replay_pvr(ctx, np)
    if selftest:
        rec = json.loads(json.dumps(next(r for r in recs['pack'] if r['am'] and r['am'][0])))
        rec['am'][0][0] += 1
        before = len(ctx.fails)
        replay_pack(rec, ctx, np, P)
        if len(ctx.fails) == before:
            raise core.Machinery('selftest: corrupted packed coefficient not rejected')
        del ctx.fails[before:]
        ctx.notes.append('selftest: corrupted packed coefficient rejected')
    ctx.sample(recs['pack'][10])
    ctx.sample({k: recs['lstsq'][5][k] for k in ('nk', 'p', 'inv', 'c', 'fullrank')})
    ctx.bounds = {'weights': WEIGHTS, 'term_lists': len(TERMS), 'fit_cases': len(recs['lstsq']), 'svecs': SVECS}
    ctx.assumptions += ['explicit sums of Forbes polynomials are formed from the exact per-mode values of QPoly/OrthoPoly; the packer + evaluator pair is compared with the explicit sum of the library\'s own Q2d modes (bound by C07)',
                        'least-squares recovery is asserted only when the exact Gram determinant over the valid samples is non-zero']

"""C03 -- output sampling and coordinates are physically correct.  Spec: Optics.tla (physical quantities as exact
rationals; spot sample derived from the exact Fourier kernel by the cyclotomic zero test).  Binding: a tilted pupil is
pushed through Wavefront.focus, focus_fixed_sampling (both methods) and the displaced spot back through
unfocus / unfocus_fixed_sampling; where the light lands, what spacing is reported and where the reported coordinates
put it are compared with the specification's rationals."""
import json
import math
from fractions import Fraction

from . import core, dftlib as D

PROP = 'C03'

MENU = {
    'quick': dict(Ns=[4, 5, 6], Lams=[(1, 2)], Efls=[(100, 1)], Dxs=[(1, 4), (1, 1)],
                  Qs=[(1, 1), (2, 1), (3, 2)], NQs=[(8, 1), (15, 2)], Ms=[5, 8], Ss=[(0, 1), (-5, 2)],
                  Ks=[(1, 1), (-2, 1), (1, 2)]),
    'thorough': dict(Ns=[3, 4, 5, 6, 7, 8], Lams=[(1, 2), (633, 1000)], Efls=[(100, 1)], Dxs=[(1, 4), (1, 1)],
                     Qs=[(1, 1), (2, 1), (3, 1), (3, 2), (5, 4)], NQs=[(8, 1), (12, 1), (15, 2)], Ms=[5, 8, 12],
                     Ss=[(0, 1), (1, 1), (-5, 2)], Ks=[(0, 1), (1, 1), (-2, 1), (1, 2), (-3, 2)]),
}
LAWS = ('HelperInverse', 'QConsistent', 'SpotPhysical', 'KernelAgrees')


def cfg(m, route, emit, small=False):
    c = 'INIT Init\nNEXT Next\nCHECK_DEADLOCK FALSE\nCONSTANTS\n Route = "%s"\n EmitOn = %s\n' % (route, 'TRUE' if emit else 'FALSE')
    c += 'INVARIANT Emit\n' if emit else ''.join('INVARIANT %s\n' % i for i in LAWS)
    d = dict(Ns=D.rng(m['Ns']), Lams=D.tup(m['Lams']), Efls=D.tup(m['Efls']), Dxs=D.tup(m['Dxs']), Qs=D.tup(m['Qs']),
             NQs=D.tup(m['NQs']), Ms=D.rng(m['Ms']), Ss=D.tup(m['Ss']), Ks=D.tup(m['Ks']))
    return c, d


def fr(t):
    return Fraction(t[0], t[1])


def tilt(nr, nc, kr, kc, np):
    y = (np.arange(nr) - nr // 2)[:, None]
    x = (np.arange(nc) - nc // 2)[None, :]
    return np.exp(2j * np.pi * (float(kr) * y / nr + float(kc) * x / nc))


def peak_check(I, ax, np):
    """Along each axis the light must be where the spec says: on-sample -> a single peak there; half-way between two
    samples -> those two are equal and the largest.  Returns None or a message."""
    prof_r = I.sum(axis=1)
    prof_c = I.sum(axis=0)
    for prof, a, name in ((prof_r, ax[0], 'y'), (prof_c, ax[1], 'x')):
        idx = fr(a['idx']) + a['m'] // 2
        if not (0 <= idx <= a['m'] - 1):
            continue
        if Fraction(a['m']) > fr(a['Q']) * a['n']:
            continue      # output spans more than one period: aliases of the spot are legitimate
        if float(prof.max()) < 1e-12:
            continue      # no light in the window at all (the OTHER axis puts its spot outside the window, every sample on a zero
            #               of its kernel): the profile is rounding noise and shows nothing about this axis
        if idx.denominator == 1:
            if int(np.argmax(prof)) != int(idx):
                return name, 'spot expected at sample %s, profile %s' % (idx, np.round(prof, 6).tolist())
        elif idx.denominator == 2:
            lo = int(math.floor(idx))
            if abs(prof[lo] - prof[lo + 1]) > 1e-9 * prof.max() or prof[lo] < prof.max() * (1 - 1e-9):
                return name, 'spot expected between samples %d and %d, profile %s' % (lo, lo + 1, np.round(prof, 6).tolist())
    return None


def replay(rec, ctx, np):
    from prysm import propagation as P
    r, c = rec['row'], rec['col']
    lam, efl, dx = float(fr(rec['lam'])), float(fr(rec['efl'])), float(fr(rec['dx']))
    f = tilt(r['n'], c['n'], fr(r['k']), fr(c['k']), np)
    route = rec['route']
    sq = 'sq' if r['n'] == c['n'] else 'nonsq'
    fails = []

    def located(w, pr, pc):
        I = w.intensity
        return float(I.y[pr, pc]) if I.y.ndim == 2 else float(I.y[pr]), float(I.x[pr, pc]) if I.x.ndim == 2 else float(I.x[pc])

    try:
        # scalar helpers
        for a in (r, c):
            want_dxo, want_q = float(fr(a['dxo'])), float(fr(a['Q']))
            if route == 'fft':
                got = P.pupil_sample_to_psf_sample(dx, a['m'], lam, efl)
                if abs(got - want_dxo) > 1e-12 * want_dxo:
                    fails.append(('pupil_sample_to_psf_sample', 'got %r want %r' % (got, want_dxo)))
                back = P.psf_sample_to_pupil_sample(got, a['m'], lam, efl)
                if abs(back - dx) > 1e-12 * dx:
                    fails.append(('psf_sample_to_pupil_sample', 'round trip %r != %r' % (back, dx)))
            gq = P.Q_for_sampling(a['n'] * dx, efl, lam, want_dxo)
            if abs(gq - want_q) > 1e-12 * want_q:
                fails.append(('Q_for_sampling', 'got %r want %r' % (gq, want_q)))
        w0 = P.Wavefront(f.copy(), lam, dx)
        if route == 'fft':
            Q = D.qf(rec['q'])
            outs = [('Wavefront.focus', w0.focus(efl, Q=Q), (0., 0.))]
        else:
            dxo = float(fr(r['dxo']))
            sh = (float(fr(c['s'])) * dxo, float(fr(r['s'])) * dxo)
            outs = [('focus_fixed_sampling:' + m, w0.focus_fixed_sampling(efl, dxo, (r['m'], c['m']), shift=sh, method=m), sh) for m in ('mdft', 'czt')]
        for name, w, sh in outs:
            if w.data.shape != (r['m'], c['m']):
                fails.append((name + ':shape', 'shape %s want %s' % (w.data.shape, (r['m'], c['m']))))
                continue
            I = np.abs(w.data) ** 2
            pk = peak_check(I, (r, c), np)
            if pk:
                fails.append(('%s:spot:%s' % (name, pk[0]), pk[1]))
                continue
            # reported spacing and reported coordinates
            for a, axis in ((r, 'y'), (c, 'x')):
                want = float(fr(a['dxo']))
                if abs(float(w.dx) - want) > 1e-12 * want:
                    fails.append(('%s:reported-dx:%s:axis=%s' % (name, sq, axis), 'reports dx=%r, true spacing along %s is %r' % (float(w.dx), axis, want)))
            if r['on'] and c['on']:
                pr, pc = int(fr(r['idx'])) + r['m'] // 2, int(fr(c['idx'])) + c['m'] // 2
                ly, lx = located(w, pr, pc)
                for got, a, s, axis in ((ly, r, sh[1], 'y'), (lx, c, sh[0], 'x')):
                    want = float(fr(a['pos']))
                    if abs((got - s) - want) > 1e-9 * (abs(want) + float(fr(a['dxo']))):
                        fails.append(('%s:coordinates:%s:axis=%s' % (name, sq, axis), 'spot located at %r (shift %r), physically at %r' % (got, s, want)))
        # and back: a displaced focal spot unfocuses to the corresponding pupil tilt
        if r['on'] and c['on'] and fr(r['s']) == 0 and fr(c['s']) == 0:
            foc = np.zeros((r['m'], c['m']), dtype=complex)
            foc[int(fr(r['idx'])) + r['m'] // 2, int(fr(c['idx'])) + c['m'] // 2] = 1
            if route == 'fft':
                wf = P.Wavefront(foc, lam, float(fr(c['dxo'])), space='psf')
                backs = [('Wavefront.unfocus', wf.unfocus(efl, Q=1), (r['m'], c['m']))]
            else:
                wf = P.Wavefront(foc, lam, float(fr(r['dxo'])), space='psf')
                backs = [('unfocus_fixed_sampling:' + m, wf.unfocus_fixed_sampling(efl, dx, (r['n'], c['n']), method=m), (r['n'], c['n'])) for m in ('mdft', 'czt')]
            for name, wb, shp in backs:
                g = wb.data
                if g.shape != shp:
                    fails.append((name + ':shape', 'shape %s want %s' % (g.shape, shp)))
                    continue
                if route != 'fft' or r['n'] == c['n']:
                    if abs(float(wb.dx) - dx) > 1e-12 * dx:
                        fails.append((name + ':reported-dx:' + sq, 'reports dx=%r want %r' % (float(wb.dx), dx)))
                for axis, a, k in ((0, r, fr(r['k'])), (1, c, fr(c['k']))):
                    if g.shape[axis] < 2:
                        continue
                    ratio = (np.take(g, 1, axis=axis) / np.take(g, 0, axis=axis)).ravel()[0]
                    want = np.exp(2j * np.pi * float(k) / a['n'])
                    if abs(ratio - want) > 1e-9:
                        fails.append(('%s:tilt:axis=%s' % (name, 'yx'[axis]), 'phase step %r per sample, want %r (k=%s waves over %d samples)' % (ratio, want, k, a['n'])))
    except Exception as ex:
        fails.append(('raised', 'raised %s: %s' % (type(ex).__name__, ex)))
    ctx.replayed(1, key=json.dumps(rec, sort_keys=True))
    for site, det in fails:
        ctx.fail('Optics:%s:%s' % (route, site), 'n=%s lam=%s efl=%s dx=%s k=%s Q/nQ=%s m=%s s=%s: %s' % (
            (r['n'], c['n']), rec['lam'], rec['efl'], rec['dx'], (r['k'], c['k']), rec['q'] if route == 'fft' else rec['nq'],
            (r['m'], c['m']), (r['s'], c['s']), det), rec)


def run(ctx, replay=None, selftest=False):
    import numpy as np
    for m in ('GridLib', 'Rat', 'Cyclo', 'Optics'):
        core.sany(m)
    M = MENU[ctx.tier]
    if replay:
        rec = json.load(open(replay))['record']
        c, d = cfg(dict(M, Ns=[4], Ks=[(1, 1)], Lams=M['Lams'][:1], Dxs=M['Dxs'][:1], Qs=[(2, 1)], NQs=M['NQs'][:1], Ms=[8], Ss=[(0, 1)]), 'fft', False)
        ctx.tlc('Optics', c, defs=d, name='replay-smoke', emit=False)
        globals()['replay'](rec, ctx, np)
        return
    recs = []
    for route in ('fft', 'fixed'):
        # laws on a sub-menu that keeps the cyclotomic test cheap; emission over the whole menu
        sub = dict(M, Lams=M['Lams'][:1], Dxs=M['Dxs'][:1], Efls=M['Efls'][:1])
        c, d = cfg(sub, route, False)
        ctx.tlc('Optics', c, defs=d, name=route + '-laws', emit=False, require_actions=('Compute',))
        em = M if route == 'fft' else dict(M, Lams=M['Lams'][:1], Efls=M['Efls'][:1])
        c, d = cfg(em, route, True)
        r = ctx.tlc('Optics', c, defs=d, name=route + ':emit', coverage=False, count=False)
        recs += r.records
    fn = globals()['replay']
    from prysm import fttools
    for i, rec in enumerate(recs):
        fn(rec, ctx, np)
        if i % 500 == 0:
            fttools.mdft.clear()
            fttools.czt.clear()
    if selftest:
        rec = json.loads(json.dumps(next(r for r in recs if r['route'] == 'fixed' and r['row']['on'] and r['col']['on'] and r['row']['k'][0] != 0)))
        rec['row']['idx'] = [rec['row']['idx'][0] + rec['row']['idx'][1], rec['row']['idx'][1]]
        before = len(ctx.fails)
        fn(rec, ctx, np)
        if len(ctx.fails) == before:
            raise core.Machinery('selftest: spot index off by one not rejected')
        del ctx.fails[before:]
        ctx.notes.append('selftest: spot index off by one sample rejected')
    ctx.sample({'kind': 'fft', 'rec': recs[1]})
    ctx.sample({'kind': 'fixed', 'rec': recs[-1]})
    ctx.bounds = {k: [list(x) if isinstance(x, tuple) else x for x in v] for k, v in M.items()}
    ctx.assumptions += ['tilt of k waves across the aperture is the phase exp(+2 pi i k x / D) sampled on the origin-centred grid',
                        'where the output spans more than one period (m > nQ) aliases of the spot are legitimate and the position is not checked']

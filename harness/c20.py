"""C20 -- Jones and Mueller calculus.  Spec: Jones.tla (exact Q(i) arithmetic over ModQ on Pythagorean angles and
retardances; unitarity, idempotence + Malus, rotation-by-conjugation, Mueller homomorphism, orthogonality of the Mueller
matrix of a unitary, Pauli reconstruction; the pinned vortex retarder must violate Unitary).  Binding: every element state is
exported with its exact Jones and Mueller matrices and Pauli coefficients and compared with the prysm.x.polarization
constructors (scalar and batched), jones_to_mueller, pauli_coefficients; polarised propagation is compared component-wise."""
import json
import math
from fractions import Fraction

from . import core, modq

PROP = 'C20'
ANG = [((1, 1), (0, 1)), ((0, 1), (1, 1)), ((3, 5), (4, 5)), ((-4, 5), (3, 5)), ((5, 13), (-12, 13)), ((-1, 1), (0, 1)), ((8, 17), (15, 17))]
HR = [((1, 1), (0, 1)), ((0, 1), (1, 1)), ((3, 5), (4, 5)), ((12, 13), (5, 13)), ((4, 5), (-3, 5))]
ARB = [((1, 0), (0, 1), (2, -1), (0, 0)), ((0, 1), (1, 0), (1, 0), (0, -1)), ((1, 1), (0, 0), (0, 2), (1, 0)), ((2, 0), (-1, 1), (0, 1), (1, -1))]
LAWS = ('Unitary', 'Idempotent', 'RotationLaw', 'MuellerOfUnitary', 'Homomorphism', 'PauliLaw')


def ang(c, s):
    return '<<<<%d, %d>>, <<%d, %d>>>>' % (c + s)


def cfg(tier, emit, variant='design', only_angle=None, laws=True):
    q = tier == 'quick'
    angles, hr, arb, charges = (ANG[:4], HR[:3], ARB[:2], (1, 2)) if q else (ANG, HR, ARB, (1, 2, 3))
    rangles = [a for a in angles if a[0][0] >= 0 and a[1][0] >= 0]
    if only_angle is not None:
        angles = [angles[only_angle]]
    c = 'INIT Init\nNEXT Next\nCHECK_DEADLOCK FALSE\nCONSTANTS\n Variant = "%s"\n EmitOn = %s\n' % (variant, 'TRUE' if emit else 'FALSE')
    if laws:
        c += ''.join('INVARIANT %s\n' % i for i in LAWS)
    if emit:
        c += 'INVARIANT Emit\n'
    d = dict(Angles='{%s}' % ', '.join(ang(*a) for a in angles), RAngles='{%s}' % ', '.join(ang(*a) for a in rangles), HalfRets='{%s}' % ', '.join(ang(*a) for a in hr),
             Alphas='{<<0, 1>>, <<1, 3>>, <<1, 2>>, <<1, 1>>}', Charges='{%s}' % ', '.join(map(str, charges)),
             Arbitrary='{%s}' % ', '.join('<<%s>>' % ', '.join('<<%d, %d>>' % z for z in m) for m in arb))
    return c, d


def gnum(g):
    return complex(float(modq.to_fraction(g[0])), float(modq.to_fraction(g[1])))


def mat(M, np):
    n = len(M)
    return np.array([[gnum(M[i][j]) for j in range(n)] for i in range(n)], dtype=complex)


def angle_of(a):
    return math.atan2(a[1][0] / a[1][1], a[0][0] / a[0][1])


def build(P, el, np, shape=None):
    k = el['k']
    t = angle_of(el['t'])
    kw = {} if shape is None else {'shape': shape}
    if k == 'rotation':
        return P.jones_rotation_matrix(t, **kw)
    if k == 'retarder':
        return P.linear_retarder(2 * angle_of(el['h']), theta=t, **kw)
    if k == 'hwp':
        return P.half_wave_plate(theta=t, **kw)
    if k == 'qwp':
        return P.quarter_wave_plate(theta=t, **kw)
    if k == 'diattenuator':
        return P.linear_diattenuator(el['al'][0] / el['al'][1], theta=t, **kw)
    if k == 'polarizer':
        return P.linear_polarizer(theta=t, **kw)
    if k == 'vvr':
        th = np.array([t]) if shape is None else np.full(shape, t)
        out = P.vector_vortex_retarder(el['q'], th, retardance=2 * angle_of(el['h']), rotate=angle_of(el['r']))
        return out[0] if shape is None else out
    return np.array([[complex(*el['m'][0]), complex(*el['m'][1])], [complex(*el['m'][2]), complex(*el['m'][3])]])


def replay(rec, ctx, np, P):
    el = rec['el']
    J = mat(rec['J'], np)
    M = mat(rec['M'], np).real
    pc = [gnum(g) for g in rec['pauli']]
    k = el['k']
    fails = []
    tol = 1e-12 * (1 + core.maxabs(J))
    try:
        got = np.asarray(build(P, el, np))
        if got.shape != (2, 2) or core.maxabs(got - J) > tol:
            fails.append(('%s:value' % k, 'got %s want %s' % (np.round(got, 10).tolist(), np.round(J, 10).tolist())))
        else:
            if k in ('rotation', 'retarder', 'hwp', 'qwp', 'vvr') and core.maxabs(got.conj().T @ got - np.eye(2)) > 1e-12:
                fails.append(('%s:unitary' % k, 'J^H J = %s' % np.round(got.conj().T @ got, 10).tolist()))
        if k != 'arbitrary':
            for shape in ((2,), (2, 3)):
                b = np.asarray(build(P, el, np, shape=shape))
                if b.shape != shape + (2, 2) or core.maxabs(b - J) > tol:
                    fails.append(('%s:batched' % k, 'batch shape %s: result shape %s, element 0 = %s want %s' % (shape, b.shape, np.round(b.reshape(-1, 2, 2)[0], 10).tolist(), np.round(J, 10).tolist())))
                    break
        # Mueller and Pauli on the SPECIFIED Jones matrix, scalar and batched
        gm = P.jones_to_mueller(J.copy(), broadcast=False)
        if core.maxabs(gm - M) > 1e-12 * (1 + core.maxabs(M)):
            fails.append(('jones_to_mueller:value', 'got %s want %s' % (np.round(gm, 10).tolist(), np.round(M, 10).tolist())))
        stack = np.stack([J, 2 * J, J.T])
        gmb = P.jones_to_mueller(stack, broadcast=True)
        wantb = np.stack([M, 4 * M, np.real(P.jones_to_mueller(J.T.copy(), broadcast=False))])
        if gmb.shape != (3, 4, 4) or core.maxabs(gmb - wantb) > 1e-11 * (1 + core.maxabs(M)):
            fails.append(('jones_to_mueller:batched', 'broadcast form differs from the element-by-element form'))
        gp = P.pauli_coefficients(J.copy())
        if any(abs(complex(a) - b) > tol for a, b in zip(gp, pc)):
            fails.append(('pauli_coefficients', 'got %s want %s' % ([complex(a) for a in gp], pc)))
        # batched over two leading axes (M != N): the same coefficients, element by element
        stack2 = np.stack([np.stack([J, 2 * J, J.T]), np.stack([J.conj(), 1j * J, J @ J])])
        gp2 = [np.asarray(c_) for c_ in P.pauli_coefficients(stack2.copy())]
        want2 = [[P.pauli_coefficients(stack2[a, b].copy()) for b in range(3)] for a in range(2)]
        if any(g.shape != (2, 3) for g in gp2) or any(abs(complex(gp2[k_][a, b]) - complex(want2[a][b][k_])) > tol * (1 + abs(complex(want2[a][b][k_]))) for k_ in range(4) for a in range(2) for b in range(3)):
            fails.append(('pauli_coefficients:batched', 'coefficients of a (2, 3) batch of Jones matrices differ from the element-by-element coefficients (shapes %s)' % [g.shape for g in gp2]))
        rebuilt = sum(complex(c_) * P.pauli_spin_matrix(i) for i, c_ in enumerate(gp))
        if core.maxabs(rebuilt - J) > tol:
            fails.append(('pauli_spin_matrix:reconstruction', 'sum c_k sigma_k != J'))
    except Exception as ex:
        import traceback
        if not any('/prysm/' in f.filename for f in traceback.extract_tb(ex.__traceback__)):
            raise
        fails.append(('%s:raised' % k, '%s: %s' % (type(ex).__name__, ex)))
    ctx.replayed(1, key=json.dumps(el, sort_keys=True))
    for kind, msg in fails:
        ctx.fail('Jones:%s' % kind, 'element=%s: %s' % ({a: el[a] for a in ('k', 't', 'h', 'al', 'q', 'r') if a in el}, msg[:500]), rec)


def replay_propagation(ctx, np, P):
    """Polarised propagation = each Jones component propagated on its own, for the five supported routines."""
    from prysm import propagation as prop
    rng = np.random.RandomState(ctx.seed + 3)
    base = rng.normal(size=(6, 5, 2, 2)) + 1j * rng.normal(size=(6, 5, 2, 2))
    # weak polarisation aberration: the four components are nearly (not exactly) the same field; and a dim field
    near = np.repeat(base[..., :1, :1], 2, axis=-2).repeat(2, axis=-1) * (1 + 1e-7 * rng.normal(size=(6, 5, 2, 2)))
    fields = [('generic', base), ('nearly-equal-components', near), ('dim', base * 1e-9)]
    cases = [('focus', (2,), {}), ('unfocus', (2,), {}), ('focus_fixed_sampling', (0.25, 30.0, 0.5, 3.0, 7), {}),
             ('unfocus_fixed_sampling', (3.0, 30.0, 0.5, 0.25, (6, 5)), {}), ('angular_spectrum', (0.5, 0.25, 3.0), {'Q': 1})]
    for name, args, kw in cases:
        fn = getattr(prop, name)
        try:
            for label, field in fields:
                got = P.jones_adapter(fn)(field.copy(), *args, **kw)
                ok = got.shape[-2:] == (2, 2)
                for i in range(2):
                    for j in range(2):
                        want = fn(field[..., i, j].copy(), *args, **kw)
                        # linearity: each component is propagated on its own, to rounding RELATIVE to that component
                        ok = ok and got[..., i, j].shape == want.shape and core.maxabs(got[..., i, j] - want) <= 1e-11 * core.maxabs(want)
                scalar = P.jones_adapter(fn)(field[..., 0, 0].copy(), *args, **kw)
                ok = ok and core.maxabs(scalar - fn(field[..., 0, 0].copy(), *args, **kw)) == 0
                if not ok:
                    ctx.fail('Jones:propagation:%s:%s' % (name, label), 'polarised %s of a %s Jones field differs from propagating each Jones component' % (name, label), {'routine': name})
                    break
        except Exception as ex:
            ctx.fail('Jones:propagation:%s:raised' % name, '%s: %s' % (type(ex).__name__, ex), {'routine': name})
        ctx.replayed(1, key=('prop', name))


def run(ctx, replay_path=None, selftest=False, replay=None):
    import numpy as np
    import prysm.x.polarization as P
    replay_path = replay_path or replay
    for m in ('Rat', 'ModQ', 'Jones'):
        core.sany(m)
    fn = globals()['replay']
    if replay_path:
        rec = json.load(open(replay_path))['record']
        if 'el' in rec:
            c, d = cfg('quick', False)
            fn(rec, ctx, np, P)
        else:
            replay_propagation(ctx, np, P)
        c, d = cfg('quick', False, variant='vvr-pinned')
        ctx.tlc('Jones', c, defs=d, name='replay-smoke', emit=False, must_hold=False)
        return
    # laws on 16 workers (no coverage statistics: they triple the cost of this arithmetic-heavy model) ...
    c, d = cfg(ctx.tier, False)
    rl = ctx.tlc('Jones', c, defs=d, name='laws', emit=False, coverage=False, timeout=3000)
    if rl.distinct < 50:
        raise core.Machinery('Jones laws run explored only %d states' % rl.distinct)
    c, d = cfg('quick', False, variant='vvr-pinned')
    ctx.tlc('Jones', c, defs=d, name='pinned-vvr', emit=False, must_hold=False, count=False, coverage=False, timeout=3000)
    # ... emission partitioned by orientation angle over parallel single-worker runs
    nang = 4 if ctx.tier == 'quick' else len(ANG)
    thunks = [(lambda i=i: ctx.tlc('Jones', cfg(ctx.tier, True, only_angle=i, laws=False)[0], defs=cfg(ctx.tier, True, only_angle=i, laws=False)[1],
                                   name='emit-angle%d' % i, coverage=False, count=False, timeout=3000)) for i in range(nang)]

    class R:
        records = []
    r = R()
    seen = set()
    for part in core.parallel(thunks):
        for rec in part.records:
            key = json.dumps(rec['el'], sort_keys=True)
            if key not in seen:
                seen.add(key)
                r.records.append(rec)
    for rec in r.records:
        fn(rec, ctx, np, P)
    replay_propagation(ctx, np, P)
    if selftest:
        rec = json.loads(json.dumps(next(x for x in r.records if x['el']['k'] == 'retarder')))
        rec['J'][0][0][0] = modq.from_fraction(modq.to_fraction(rec['J'][0][0][0]) + Fraction(1, 1000))
        before = len(ctx.fails)
        fn(rec, ctx, np, P)
        if len(ctx.fails) == before:
            raise core.Machinery('selftest: corrupted Jones entry not rejected')
        del ctx.fails[before:]
        ctx.notes.append('selftest: corrupted exact Jones entry rejected')
    ctx.sample({'element': r.records[0]['el'], 'J': np.round(mat(r.records[0]['J'], np), 6).tolist()})
    ctx.bounds = {'angles': ANG[:4] if ctx.tier == 'quick' else ANG, 'half_retardances': HR[:3] if ctx.tier == 'quick' else HR, 'arbitrary': ARB}
    ctx.assumptions += ['angles and retardances are Pythagorean (rational cos and sin); passed to the library as atan2 of the rationals',
                        'polarised propagation is compared on a random complex field with the component-wise calls (bitwise for the scalar pass-through)']

"""C17 -- thin-film and Fresnel coefficients.  Spec: ThinFilm.tla (exact Q(i) characteristic-matrix calculus on a Pythagorean
family of incidence / refraction angles and rational phase thicknesses; energy conservation, single interface = Fresnel,
Brewster, zero-thickness and half-wave absentee layers).  Binding: every emitted stack is replayed into multilayer_stack_rt
(scalar and batched), fresnel_rs/ts/rp/tp, brewsters_angle, critical_angle, snell_aor and compared with the exact r, t."""
import json
import math
from fractions import Fraction

from . import core, modq

PROP = 'C17'
LN2 = math.log(2.0)


def R(a, b=1):
    return '<<%d, %d>>' % (a, b)


def GRat(re, im=(0, 1)):
    return '<<%s, %s>>' % (R(*re), R(*im))


# media: (n re, n im, cos theta)
CONFIGS = [
    dict(n0=(1, 1), c0=(1, 1), s0=(0, 1), media=[((69, 50), (0, 1), (1, 1)), ((2, 1), (0, 1), (1, 1)), ((3, 2), (0, 1), (1, 1)), ((1, 1), (0, 1), (1, 1))]),
    dict(n0=(1, 1), c0=(3, 5), s0=(4, 5), media=[((4, 3), (0, 1), (4, 5)), ((1, 1), (0, 1), (3, 5)), ((52, 25), (0, 1), (12, 13)), ((17, 10), (0, 1), (15, 17))]),
    dict(n0=(4, 3), c0=(4, 5), s0=(3, 5), media=[((4, 3), (0, 1), (4, 5)), ((1, 1), (0, 1), (3, 5)), ((52, 25), (0, 1), (12, 13)), ((20, 7), (0, 1), (24, 25))]),
    dict(n0=(1, 1), c0=(4, 5), s0=(3, 5), media=[((39, 25), (0, 1), (12, 13)), ((51, 40), (0, 1), (15, 17)), ((15, 7), (0, 1), (24, 25)), ((3, 4), (0, 1), (3, 5))]),
]
# beta: ((cos re, cos im), (sin re, sin im)); the last two are x - i ln 2 with x = atan2(4/5, 3/5) and x = pi/2 (absorbing)
BETAS_REAL = [(((1, 1), (0, 1)), ((0, 1), (0, 1))), (((0, 1), (0, 1)), ((1, 1), (0, 1))), (((-1, 1), (0, 1)), ((0, 1), (0, 1))),
              (((3, 5), (0, 1)), ((4, 5), (0, 1))), (((-5, 13), (0, 1)), ((12, 13), (0, 1))), (((0, 1), (0, 1)), ((-1, 1), (0, 1)))]
BETAS_ABS = [(((3, 4), (3, 5)), ((1, 1), (-9, 20))), (((0, 1), (3, 4)), ((5, 4), (0, 1)))]


def cfg(tier, emit, variant='design', configs=None, pols=('s', 'p')):
    q = tier == 'quick'
    c = 'INIT Init\nNEXT Next\nCHECK_DEADLOCK FALSE\nCONSTANTS\n MaxLayers = %d\n Variant = "%s"\n EmitOn = %s\n' % (1 if q else 2, variant, 'TRUE' if emit else 'FALSE')
    c += 'INVARIANT Emit\n' if emit else 'INVARIANT SnellLaw\nINVARIANT EnergyLaw\nINVARIANT FresnelLaw\nINVARIANT AbsenteeLaw\n'
    cs = CONFIGS if configs is None else configs
    betas = BETAS_REAL[:5]            # (thorough: two thin layers + substrate over the same 5 phase thicknesses; a 6th made the emission run exceed 50 min)
    d = dict(Configs='{%s}' % ', '.join('[n0 |-> %s, c0 |-> %s, s0 |-> %s, media |-> {%s}]' % (
        R(*k['n0']), R(*k['c0']), R(*k['s0']), ', '.join('<<%s, %s>>' % (GRat(m[0], m[1]), R(*m[2])) for m in k['media'])) for k in cs),
        Betas='{%s}' % ', '.join('<<%s, %s>>' % (GRat(*b[0]), GRat(*b[1])) for b in betas),
        EmitPols='{%s}' % ', '.join('"%s"' % x for x in pols))
    return c, d


def fr(t):
    return Fraction(t[0], t[1])


def gnum(g):
    return complex(float(modq.to_fraction(g[0])), float(modq.to_fraction(g[1])))


def concrete(rec, lam):
    """(index, thickness) pairs realising the abstract layers at wavelength lam (microns)."""
    out = []
    for l in rec['stack']:
        nr, ni = float(fr(l['n'][0])), float(fr(l['n'][1]))
        c = float(fr(l['c']))
        cb = complex(float(fr(l['b'][0][0])), float(fr(l['b'][0][1])))
        sb = complex(float(fr(l['b'][1][0])), float(fr(l['b'][1][1])))
        if ni == 0:
            x = math.atan2(sb.real, cb.real) % (2 * math.pi)
            out.append((nr, x * lam / (2 * math.pi * nr * c)))
        else:
            # beta = x - i ln 2 : cos = cos x cosh y + i sin x sinh y with cosh y = 5/4, sinh y = 3/4
            x = math.atan2(sb.real / 1.25, cb.real / 1.25) % (2 * math.pi)
            d = x * lam / (2 * math.pi * nr)
            k = LN2 * lam / (2 * math.pi * d)
            out.append((complex(nr, -k), d))
    return out


def kind_of(rec):
    n = len(rec['stack'])
    return ('interface' if n == 1 else '%d-layer' % (n - 1)) + ('' if rec['lossless'] else ':absorbing') + (':normal' if rec['s0'][0] == 0 else ':oblique')


def replay(rec, ctx, np, T):
    lam = 0.5
    aoi = math.degrees(math.atan2(float(fr(rec['s0'])), float(fr(rec['c0']))))
    n0 = float(fr(rec['n0']))
    pol = rec['pol']
    r_want, t_want = gnum(rec['r']), gnum(rec['t'])
    st = concrete(rec, lam)
    if not rec['lossless'] and rec['s0'][0] != 0:
        return                              # absorbing layers are specified at normal incidence only
    fails = []
    kind = kind_of(rec)
    try:
        r, t = T.multilayer_stack_rt(st, lam, pol, aoi=aoi, ambient_index=n0)
        if abs(complex(r) - r_want) > 1e-9 or abs(complex(t) - t_want) > 1e-9 * (1 + abs(t_want)):
            fails.append(('multilayer_stack_rt:%s:%s' % (pol, kind), 'r %r t %r want %r %r' % (complex(r), complex(t), r_want, t_want)))
        else:
            last = rec['stack'][-1]
            if rec['lossless']:
                tf = float(fr(last['n'][0]) * fr(last['c']) / (fr(rec['n0']) * fr(rec['c0'])))
                tot = abs(r) ** 2 + abs(t) ** 2 * tf
                if abs(tot - 1) > 1e-9:
                    fails.append(('energy:%s:%s' % (pol, kind), 'R + T = %r' % tot))
            else:
                Rr, Tt = abs(r_want) ** 2, abs(t_want) ** 2 * float(fr(last['n'][0]) * fr(last['c']) / (fr(rec['n0']) * fr(rec['c0'])))
                if last['n'][1][0] == 0 and abs(r) ** 2 + abs(t) ** 2 * (Tt / abs(t_want) ** 2) > 1 + 1e-9:
                    fails.append(('energy:absorbing:%s' % pol, 'R + T = %r > 1 with an absorbing layer' % (abs(r) ** 2 + Tt)))
        # batched = loop: the same stack at three thickness scalings of the first layer, as arrays of shape (3,) and (1, 3)
        if len(st) >= 2 and rec['lossless']:
            scal = np.array([1.0, 0.5, 1.7])
            loop = [T.multilayer_stack_rt([(st[0][0], st[0][1] * s)] + st[1:], lam, pol, aoi=aoi, ambient_index=n0) for s in scal]
            for shape in ((3,), (1, 3)):
                stack = [[np.full(shape, st[0][0]), (st[0][1] * scal).reshape(shape)]] + [[np.full(shape, n), np.full(shape, d)] for n, d in st[1:]]
                rb, tb = T.multilayer_stack_rt(np.array(stack), lam, pol, aoi=aoi, ambient_index=n0)
                if np.shape(rb) != shape or core.maxabs(np.ravel(rb) - np.array([complex(x[0]) for x in loop])) > 1e-10 or core.maxabs(np.ravel(tb) - np.array([complex(x[1]) for x in loop])) > 1e-10:
                    fails.append(('multilayer_stack_rt:batched:%s' % pol, 'batch shape %s differs from the per-element loop' % (shape,)))
                    break
            # spatially varying index AND thickness over a 2-D batch (C-ordered pairing of index, thickness and output pixel)
            shape = (2, 3)
            fac_n = 1.0 + 0.05 * np.arange(6).reshape(shape)
            fac_d = 1.0 + 0.3 * np.arange(6)[::-1].reshape(shape)
            stack = [[st[0][0] * fac_n, st[0][1] * fac_d]] + [[np.full(shape, n), np.full(shape, d)] for n, d in st[1:]]
            rb, tb = T.multilayer_stack_rt(np.array(stack), lam, pol, aoi=aoi, ambient_index=n0)
            loop = [[T.multilayer_stack_rt([(st[0][0] * fac_n[i, j], st[0][1] * fac_d[i, j])] + st[1:], lam, pol, aoi=aoi, ambient_index=n0) for j in range(3)] for i in range(2)]
            lr = np.array([[complex(x[0]) for x in row] for row in loop])
            lt = np.array([[complex(x[1]) for x in row] for row in loop])
            if np.shape(rb) != shape or core.maxabs(rb - lr) > 1e-10 or core.maxabs(tb - lt) > 1e-10:
                fails.append(('multilayer_stack_rt:batched-2D-varying-index:%s' % pol, 'batch (2,3) with per-pixel index and thickness differs from the per-element loop'))
        if len(rec['stack']) == 1 and rec['lossless']:
            l = rec['stack'][0]
            n1 = float(fr(l['n'][0]))
            th0 = math.radians(aoi)
            th1 = math.atan2(float(fr(rec['n0']) * fr(rec['s0']) / fr(l['n'][0])), float(fr(l['c'])))
            fn_r, fn_t = (T.fresnel_rs, T.fresnel_ts) if pol == 's' else (T.fresnel_rp, T.fresnel_tp)
            gr, gt = fn_r(n0, n1, th0, th1), fn_t(n0, n1, th0, th1)
            if abs(gr - r_want.real) > 1e-10 or abs(r_want.imag) > 1e-12:
                fails.append(('fresnel_r%s' % pol, 'n0=%s n1=%s aoi=%.4f: %r want %r' % (n0, n1, aoi, gr, r_want.real)))
            if abs(abs(gt) - abs(t_want)) > 1e-10:
                fails.append(('fresnel_t%s' % pol, 'n0=%s n1=%s aoi=%.4f: %r want modulus %r' % (n0, n1, aoi, gt, abs(t_want))))
            sa = T.snell_aor(n0, n1, aoi, degrees=True)
            if abs(complex(sa) - th1) > 1e-10:
                fails.append(('snell_aor', 'n0=%s n1=%s aoi=%.4f: %r want %r' % (n0, n1, aoi, complex(sa), th1)))
            if fr(rec['s0']) * fr(rec['n0']) == fr(rec['c0']) * fr(l['n'][0]):
                b = T.brewsters_angle(n0, n1, deg=True)
                if abs(b - aoi) > 1e-9:
                    fails.append(('brewsters_angle', 'n0=%s n1=%s: %r want %r' % (n0, n1, b, aoi)))
            if n1 > n0:
                ca = T.critical_angle(n0, n1, deg=False)
                if abs(math.sin(ca) - n0 / n1) > 1e-12:
                    fails.append(('critical_angle', 'sin(critical_angle(%s, %s)) = %r' % (n0, n1, math.sin(ca))))
    except Exception as ex:
        import traceback
        if not any('/prysm/' in f.filename for f in traceback.extract_tb(ex.__traceback__)):
            raise
        fails.append(('raised:%s:%s' % (pol, kind), '%s: %s' % (type(ex).__name__, ex)))
    ctx.replayed(1, key=json.dumps([rec['n0'], rec['s0'], rec['pol'], rec['stack']]))
    for k, m in fails:
        ctx.fail('Film:%s' % k, 'n0=%s aoi=%.4f stack=%s: %s' % (n0, aoi, [(str(n), round(d, 5)) for n, d in st], m[:400]), rec)


def run(ctx, replay_path=None, selftest=False, replay=None):
    import numpy as np
    from prysm import thinfilm as T
    replay_path = replay_path or replay
    for m in ('Rat', 'ModQ', 'Gauss', 'ThinFilm'):
        core.sany(m)
    fn = globals()['replay']
    if replay_path:
        rec = json.load(open(replay_path))['record']
        c, d = cfg('quick', False, variant='rp-pinned', configs=CONFIGS[1:2])
        ctx.tlc('ThinFilm', c, defs=d, name='replay-smoke', emit=False, must_hold=False, coverage=False)
        fn(rec, ctx, np, T)
        return
    c, d = cfg(ctx.tier, False)
    rl = ctx.tlc('ThinFilm', c, defs=d, name='laws', emit=False, coverage=False, timeout=9000)
    if rl.distinct < 100:
        raise core.Machinery('ThinFilm laws explored only %d states' % rl.distinct)
    c, d = cfg('quick', False, variant='rp-pinned', configs=CONFIGS[1:2])
    ctx.tlc('ThinFilm', c, defs=d, name='pinned-rp', emit=False, must_hold=False, count=False, coverage=False, timeout=3000)
    # emission partitioned by configuration (thorough: and by polarisation) over parallel single-worker runs
    parts = [(k, pols) for k in CONFIGS for pols in ((('s', 'p'),) if ctx.tier == 'quick' else (('s',), ('p',)))]
    thunks = [(lambda k=k, pols=pols: ctx.tlc('ThinFilm', cfg(ctx.tier, True, configs=[k], pols=pols)[0], defs=cfg(ctx.tier, True, configs=[k], pols=pols)[1],
                                              name='emit-config%d-%s' % (CONFIGS.index(k), ''.join(pols)), coverage=False, count=False, timeout=9000)) for k, pols in parts]
    recs = []
    for part in core.parallel(thunks):
        recs += part.records
    for rec in recs:
        fn(rec, ctx, np, T)
    if selftest:
        rec = json.loads(json.dumps(next(x for x in recs if len(x['stack']) == 2 and x['lossless'] and x['s0'][0] != 0)))
        rec['r'][0] = modq.from_fraction(modq.to_fraction(rec['r'][0]) + Fraction(1, 500))
        before = len(ctx.fails)
        fn(rec, ctx, np, T)
        if len(ctx.fails) == before:
            raise core.Machinery('selftest: corrupted exact reflection coefficient not rejected')
        del ctx.fails[before:]
        ctx.notes.append('selftest: corrupted exact r rejected')
    ctx.sample({k: recs[3][k] for k in ('n0', 'c0', 's0', 'pol', 'stack')})
    ctx.bounds = {'configs': len(CONFIGS), 'max_layers': 1 if ctx.tier == 'quick' else 2, 'betas': 'real Pythagorean menu'}
    ctx.assumptions += ['incidence / refraction angles and phase thicknesses are Pythagorean (rational cos, sin); thicknesses passed as beta*lambda/(2 pi n cos)',
                        'absorbing layers are NOT covered: an absorbing index and a rational characteristic matrix cannot both be exact (the R + T <= 1 form of the property is outside the exact family)']

"""C15 -- convolution theorem; MTF validity.  Spec: Conv.tla (direct-sum circular convolution about the origin n div 2;
transfer-function application per frequency coordinate in both conventions; exact |OTF|^2 on cyclotomic orders dividing
4 or 6).  Binding: replay into convolution.conv / apply_transfer_functions (shift both ways, arrays and callables of
fx, fy, fr, ft) and otf.mtf_from_psf / ptf_from_psf / otf_from_psf; integer inputs make the expected outputs integers."""
import json
import math

from . import core, dftlib as D

PROP = 'C15'
SHAPES = {'quick': [(1, 1), (1, 4), (3, 1), (2, 2), (3, 3), (2, 3), (4, 3), (5, 4), (4, 4)],
          'thorough': [(1, 1), (1, 4), (3, 1), (5, 1), (2, 2), (3, 3), (2, 3), (3, 2), (4, 3), (5, 4), (4, 4), (5, 5), (4, 6), (6, 5)]}
OTF_SHAPES = {'quick': [(1, 1), (1, 2), (2, 2), (3, 3), (2, 3), (4, 2), (1, 6), (6, 3), (4, 4)],
              'thorough': [(1, 1), (1, 2), (2, 1), (2, 2), (3, 3), (2, 3), (3, 2), (4, 2), (1, 6), (6, 3), (4, 4), (6, 6), (6, 2), (4, 1), (3, 6)]}


def cfg(mode, shapes, emit, gridfor='same'):
    c = 'INIT Init\nNEXT Next\nCHECK_DEADLOCK FALSE\nCONSTANTS\n Mode = "%s"\n GridFor = "%s"\n EmitOn = %s\n' % (mode, gridfor, 'TRUE' if emit else 'FALSE')
    c += 'INVARIANT Emit\n' if emit else 'INVARIANT ConvLaws\nINVARIANT TfLaws\nINVARIANT OtfLaws\n'
    return c, dict(Shapes=D.tup(shapes))


def par(shape):
    return '%s%s%s' % ('o' if shape[0] % 2 else 'e', 'o' if shape[1] % 2 else 'e', '' if shape[0] == shape[1] else ':nonsq')


def replay_conv(rec, ctx, np):
    from prysm.convolution import conv
    shape = tuple(rec['shape'])
    a, b, c = (np.array(rec[k], dtype=float).reshape(shape) for k in 'abc')
    ab = np.array(rec['ab'], dtype=float).reshape(shape)
    ad = np.array(rec['adelta'], dtype=float).reshape(shape)
    q = rec['q']
    delta = np.zeros(shape)
    delta[q[0] - 1, q[1] - 1] = 1.
    fails = []
    tol = 1e-9 * (np.abs(a).sum() * np.abs(b).sum() + 1)
    try:
        g = conv(a, b)
        if g.shape != shape or core.maxabs(g - ab) > tol:
            fails.append(('value', 'conv(a, b) = %s want %s' % (np.round(g, 6).tolist(), ab.tolist())))
        gd = conv(a, delta)
        if core.maxabs(gd - ad) > tol:
            at_origin = (q[0] - 1 == shape[0] // 2 and q[1] - 1 == shape[1] // 2)
            fails.append(('impulse-identity' if at_origin else 'impulse-translation', 'impulse at %s: got %s want %s' % (q, np.round(gd, 6).tolist(), ad.tolist())))
        if core.maxabs(conv(b, a) - g) > tol:
            fails.append(('commutative', 'conv(b, a) != conv(a, b)'))
        if core.maxabs(conv(a, b + c) - (g + conv(a, c))) > tol or core.maxabs(conv(3 * a, b) - 3 * g) > tol:
            fails.append(('linear', 'not linear'))
        if abs(g.sum() - a.sum() * b.sum()) > tol:
            fails.append(('total', 'sum %r, product of sums %r' % (float(g.sum()), float(a.sum() * b.sum()))))
    except Exception as ex:
        fails.append(('raised', '%s: %s' % (type(ex).__name__, ex)))
    ctx.replayed(1, key=('conv', shape, tuple(q)))
    for kind, m in fails:
        ctx.fail('Conv:conv:%s:%s' % (kind, par(shape)), 'shape=%s: %s' % (shape, m[:500]), rec)


def replay_tf(rec, ctx, np):
    from prysm.convolution import apply_transfer_functions
    shape = tuple(rec['shape'])
    r, c = shape
    dx = 0.5
    obj = (1 + ((3 * np.arange(1, r + 1)[:, None] + 5 * np.arange(1, c + 1)[None, :]) % 7)).astype(float)
    grids = {}
    for conv_, key in (('shifted', 'fshift'), ('unshifted', 'fnat')):
        g = np.array(rec[key], dtype=float).reshape(r, c, 2)
        grids[conv_] = (g[..., 1] / (c * dx), g[..., 0] / (r * dx))       # physical fx, fy of every cell

    def H1(fx, fy):
        return 1 / (1 + fx * fx + 3 * fy * fy)

    def H2(fx, fy):
        return np.exp(-0.2 * (2 * fx * fx + fy * fy))

    def g_(fx, fy):                       # sub-sample translation: Hermitian, so the result stays real
        return np.exp(-2j * np.pi * (0.3 * fx - 0.2 * fy) * dx) * (1 + 0 * fx + 0 * fy)

    def h_(fr):
        return 1 / (1 + fr * fr)

    def k_(fr, ft):
        return 1 + 0.5 * np.cos(2 * ft) * (fr > 0)

    def fy_only(fy):
        return np.cos(0.3 * fy) + 0 * fy

    lists = {'empty': [], 'array': ['H1'], 'callable-fxfy': [g_], 'array+callable': ['H1', g_], 'callable-fr': [h_],
             'callable-frft': [k_], 'callable-fy': [fy_only], 'three': [g_, h_, 'H2'], 'ones': ['ones']}
    spec = np.fft.fft2(obj)
    fxn, fyn = grids['unshifted']
    frn, ftn = np.hypot(fxn, fyn), np.arctan2(fyn, fxn)

    def value(tf, fx, fy):
        fr, ft = np.hypot(fx, fy), np.arctan2(fy, fx)
        if tf == 'H1':
            return H1(fx, fy)
        if tf == 'H2':
            return H2(fx, fy)
        if tf == 'ones':
            return np.ones_like(fx)
        import inspect
        p = inspect.signature(tf).parameters
        kw = {}
        for n_, v in (('fx', fx), ('fy', fy), ('fr', fr), ('ft', ft)):
            if n_ in p:
                kw[n_] = v
        return tf(**kw)

    fails = []
    tol = 1e-9 * np.abs(obj).sum()
    for name, tfs in lists.items():
        prod = np.ones(shape, dtype=complex)
        for tf in tfs:
            prod = prod * value(tf, fxn, fyn)
        want = np.fft.ifft2(spec * prod).real
        for conv_ in ('shifted', 'unshifted'):
            fx, fy = grids[conv_]
            concrete = [value(tf, fx, fy) if isinstance(tf, str) else tf for tf in tfs]
            try:
                got = apply_transfer_functions(obj.copy(), dx, concrete, shift=(conv_ == 'shifted'))
                if got.shape != shape or core.maxabs(got - want) > tol:
                    kind = 'identity' if name in ('empty', 'ones') else 'value'
                    fails.append(('%s:%s:%s' % (kind, conv_, 'callable' if any(callable(t) for t in tfs) else 'array'),
                                  'tfs=%s: got %s want %s' % (name, np.round(got, 5).tolist(), np.round(want, 5).tolist())))
                if len(tfs) > 1:
                    single = np.ones(shape, dtype=complex)
                    for tf in tfs:
                        single = single * value(tf, fx, fy)
                    one = apply_transfer_functions(obj.copy(), dx, [single], shift=(conv_ == 'shifted'))
                    if core.maxabs(one - got) > tol:
                        fails.append(('list-vs-product:%s' % conv_, 'tfs=%s: applying the list differs from applying the product' % name))
            except Exception as ex:
                fails.append(('raised:%s' % conv_, 'tfs=%s: %s: %s' % (name, type(ex).__name__, ex)))
            ctx.replayed(1, key=('tf', shape, name, conv_))
    for kind, m in fails:
        ctx.fail('Conv:apply_transfer_functions:%s:%s' % (kind, par(shape)), 'shape=%s: %s' % (shape, m[:500]), rec)


def replay_otf(rec, ctx, np):
    from prysm import otf
    shape = tuple(rec['shape'])
    psf = np.array(rec['psf'], dtype=float).reshape(shape)
    if rec['total'] == 0:
        return          # an all-zero PSF has no MTF
    want2 = np.array(rec['twootfsq'], dtype=float).reshape(shape) / (2.0 * rec['total'] ** 2)
    cy, cx = shape[0] // 2, shape[1] // 2
    fails = []
    try:
        m = otf.mtf_from_psf(psf.copy(), 1.0).data
        o = otf.otf_from_psf(psf.copy(), 1.0).data
        p = otf.ptf_from_psf(psf.copy(), 1.0).data
        if m.shape != shape or core.maxabs(m ** 2 - want2) > 1e-10:
            fails.append(('value', 'MTF^2 = %s want %s' % (np.round(m ** 2, 8).tolist(), np.round(want2, 8).tolist())))
        if abs(m[cy, cx] - 1) > 1e-12:
            fails.append(('dc', 'MTF at zero frequency (sample n//2) is %r' % float(m[cy, cx])))
        if m.max() > 1 + 1e-12:
            fails.append(('bound', 'MTF exceeds 1: %r' % float(m.max())))
        ys = (np.arange(shape[0]) - cy)
        xs = (np.arange(shape[1]) - cx)
        for i, y in enumerate(ys):
            for j, x in enumerate(xs):
                i2, j2 = (-y) + cy, (-x) + cx
                if 0 <= i2 < shape[0] and 0 <= j2 < shape[1] and abs(m[i, j] - m[i2, j2]) > 1e-10:
                    fails.append(('symmetry', 'MTF(%d,%d) != MTF(%d,%d)' % (y, x, -y, -x)))
                    break
            else:
                continue
            break
        if core.maxabs(o - m * np.exp(1j * p)) > 1e-10:
            fails.append(('consistency', 'OTF != MTF * exp(i PTF)'))
    except Exception as ex:
        fails.append(('raised', '%s: %s' % (type(ex).__name__, ex)))
    ctx.replayed(1, key=('otf', shape, json.dumps(rec['psf'])))
    for kind, msg in fails:
        ctx.fail('Conv:otf:%s:%s' % (kind, par(shape)), 'shape=%s psf=%s: %s' % (shape, rec['psf'], msg[:500]), rec)


def run(ctx, replay=None, selftest=False):
    import numpy as np
    for m in ('GridLib', 'Conv'):
        core.sany(m)
    fns = {'conv': replay_conv, 'tf': replay_tf, 'otf': replay_otf}
    if replay:
        rec = json.load(open(replay))['record']
        c, d = cfg('conv', [(2, 3)], False)
        ctx.tlc('Conv', c, defs=d, name='replay-smoke', emit=False)
        fns[rec['k']](rec, ctx, np)
        return
    S, O = SHAPES[ctx.tier], OTF_SHAPES[ctx.tier]
    recs = {}
    for mode, shapes in (('conv', S), ('tf', S), ('otf', O)):
        c, d = cfg(mode, shapes, False)
        ctx.tlc('Conv', c, defs=d, name=mode + '-laws', emit=False, require_actions=('Compute',))
        c, d = cfg(mode, shapes, True)
        r = ctx.tlc('Conv', c, defs=d, name=mode + ':emit', coverage=False, count=False)
        recs[mode] = r.records
        for rec in r.records:
            fns[mode](rec, ctx, np)
    c, d = cfg('tf', [(3, 3), (2, 3)], False, gridfor='shifted-always')
    ctx.tlc('Conv', c, defs=d, name='pinned-callable-grid', emit=False, must_hold=False, count=False)
    if selftest:
        rec = json.loads(json.dumps(next(r for r in recs['conv'] if r['shape'] == [3, 3])))
        rec['ab'][0][0] += 1
        before = len(ctx.fails)
        replay_conv(rec, ctx, np)
        if len(ctx.fails) == before:
            raise core.Machinery('selftest: corrupted convolution table not rejected')
        del ctx.fails[before:]
        ctx.notes.append('selftest: corrupted convolution value rejected')
    ctx.sample({k: recs['conv'][5][k] for k in ('shape', 'q', 'a', 'b', 'ab')})
    ctx.sample(recs['otf'][3])
    ctx.bounds = {'shapes': S, 'otf_shapes': O}
    ctx.assumptions += ['transfer functions used in the replay are Hermitian (real results): translation, isotropic and azimuthal filters',
                        'numpy.fft.fft2 applies the factor table the specification assigns to each frequency (numpy FFT is bound to the textbook sum by C01/C02)']

"""C16 -- sensor model.  Spec: Sensor.tla (exposure pipeline over exact rationals with modular container cast;
bin/tile index maps; Bayer colour-site map).  Binding: replay of every emitted configuration into Detector.expose (noise
switched off through the public back-end shim), detector.bindown / tile and prysm.bayer.*."""
import json
import types
from fractions import Fraction

from . import core, dftlib as D

PROP = 'C16'

MENU = {
    'quick': dict(Bits=[1, 2, 7, 8, 9, 12, 15, 16, 17, 24], Gains=[(1, 2), (1, 1), (3, 1), (7, 2)], Biases=[0, 5], Darks=[0, 2], Texps=[1, 2]),
    'thorough': dict(Bits=list(range(1, 25)), Gains=[(1, 4), (1, 2), (1, 1), (3, 1), (7, 2), (8, 1)], Biases=[0, 5, 100], Darks=[0, 2], Texps=[1, 2, 3]),
}
BINS = {
    'quick': [((4,), (2,)), ((6,), (3,)), ((4, 6), (2, 3)), ((4, 6), (2, 2)), ((6, 4), (1, 2)), ((2, 4, 6), (1, 2, 3)), ((2, 2, 2), (2, 2, 2)), ((3, 3), (3, 3)), ((4, 4), (1, 1))],
    'thorough': [((4,), (2,)), ((6,), (3,)), ((6,), (6,)), ((4, 6), (2, 3)), ((4, 6), (2, 2)), ((6, 4), (1, 2)), ((6, 6), (3, 2)), ((2, 4, 6), (1, 2, 3)),
                 ((2, 2, 2), (2, 2, 2)), ((4, 2, 6), (4, 1, 2)), ((3, 3), (3, 3)), ((4, 4), (1, 1)), ((5, 4), (5, 2)), ((6, 6, 2), (2, 3, 1))],
}
MOSAICS = {'quick': [(2, 2), (2, 4), (4, 2), (4, 6)], 'thorough': [(2, 2), (2, 4), (4, 2), (4, 4), (4, 6), (6, 4), (6, 8)]}


def seq(t):
    return '<<%s>>' % ', '.join(str(x) for x in t)


def cfg(mode, tier, emit, pinned=False, small=False):
    M = MENU[tier]
    c = 'INIT Init\nNEXT Next\nCHECK_DEADLOCK FALSE\nCONSTANTS\n Mode = "%s"\n EmitOn = %s\n CapPow2 = %s\n' % (mode, 'TRUE' if emit else 'FALSE', 'TRUE' if pinned else 'FALSE')
    c += 'INVARIANT Emit\n' if emit else 'INVARIANT InRange\nINVARIANT Monotone\nINVARIANT Saturates\nINVARIANT BinLaws\nINVARIANT BayerLaws\n'
    bits = [8, 16] if small else M['Bits']
    d = dict(Bits=D.rng(bits), Gains=D.tup(M['Gains']), Biases=D.rng(M['Biases']), Darks=D.rng(M['Darks']), Texps=D.rng(M['Texps']),
             BinShapes='{%s}' % ', '.join('<<%s, %s>>' % (seq(a), seq(b)) for a, b in BINS[tier]), Mosaics=D.tup(MOSAICS[tier]))
    return c, d


class QuietRandom:
    """Noise sources switched off: the Poisson draw returns its mean, the Gaussian draw its mean."""

    def __init__(self, np):
        self._np = np

    def poisson(self, lam, size=None):
        return self._np.broadcast_to(self._np.asarray(lam, dtype=float), size).copy() if size is not None else self._np.asarray(lam, dtype=float)

    def normal(self, loc, scale, size=None):
        return self._np.full(size, float(loc)) if size is not None else float(loc)


def quiet_backend(np):
    shim = types.SimpleNamespace()

    class Proxy:
        def __getattr__(self, k):
            if k == 'random':
                return QuietRandom(np)
            return getattr(np, k)
    return Proxy()


def replay_expose(rec, ctx, np):
    from prysm import detector
    from prysm import mathops
    c = rec['c']
    gain = Fraction(c['gain'][0], c['gain'][1])
    levels = rec['levels']
    analog = [Fraction(a[0], a[1]) for a in rec['analog']]
    full = 2 ** c['bits'] - 1
    cls = 'bits=%d:%s:%s' % (c['bits'], 'container-exact' if c['bits'] in (8, 16) else 'container-larger', c['well'])
    fails = []
    old = mathops.np._srcmodule
    try:
        mathops.np._srcmodule = quiet_backend(np)
        det = detector.Detector(dark_current=c['dark'], read_noise=0, bias=c['bias'], fwc=c['fwc'], conversion_gain=float(gain), bits=c['bits'],
                                exposure_time=c['texp'])
        for frames in (1, 2):
            img = np.array(levels, dtype=float).reshape(1, len(levels))
            img = np.vstack([img, img[:, ::-1]])              # 2 x L, every level twice, in both orders
            out = det.expose(img, frames=frames)
            want_shape = img.shape if frames == 1 else (frames,) + img.shape
            if out.shape != want_shape:
                fails.append(('shape', 'expose returned shape %s, documented %s' % (out.shape, want_shape)))
                continue
            if out.dtype.kind != 'u':
                fails.append(('dtype', 'expose returned dtype %s' % out.dtype))
            o = out if frames == 1 else out[0]
            dn = [int(v) for v in o[0]]
            if [int(v) for v in o[1][::-1]] != dn or (frames == 2 and not np.array_equal(out[0], out[1])):
                fails.append(('deterministic', 'same signal, different DN with noise off'))
            bad = [(e, v) for e, v in zip(levels, dn) if not (0 <= v <= full)]
            if bad:
                fails.append(('range', 'DN outside [0, %d]: (signal, DN) = %s' % (full, bad[:3])))
            inv = [(levels[i], dn[i], levels[i + 1], dn[i + 1]) for i in range(len(dn) - 1) if dn[i] > dn[i + 1]]
            if inv:
                fails.append(('monotone', 'brighter pixel reads darker: %s' % inv[:2]))
            off = [(e, v, float(a)) for e, v, a in zip(levels, dn, analog) if abs(v - a) >= 1 + 1e-9 * float(a)]
            if off and not bad:
                fails.append(('value', 'DN differs from the clipped gain-scaled signal by a count or more: (signal, DN, exact) = %s' % off[:3]))
    except Exception as ex:
        fails.append(('raised', '%s: %s' % (type(ex).__name__, ex)))
    finally:
        mathops.np._srcmodule = old
    ctx.replayed(1, key=('expose', json.dumps(c, sort_keys=True)))
    for kind, m in fails:
        ctx.fail('Sensor:expose:%s:%s' % (kind, cls), 'cfg=%s levels=%s: %s' % (c, levels, m), rec)


def replay_bin(rec, ctx, np):
    from prysm import detector
    shape, factor, coarse = tuple(rec['shape']), tuple(rec['factor']), tuple(rec['coarse'])
    a = np.array(rec['a'], dtype=float).reshape(shape)
    y = np.array(rec['y'], dtype=float).reshape(coarse)
    bs = np.array(rec['binsum'], dtype=float).reshape(coarse)
    pf = 1
    for f in factor:
        pf *= f
    fails = []
    forms = [factor] + ([factor[0]] if len(set(factor)) == 1 else [])
    try:
        for fac in forms:
            s = detector.bindown(a, fac, 'sum')
            m = detector.bindown(a, fac, 'avg')
            if s.shape != coarse or not np.array_equal(s, bs):
                fails.append(('bindown-sum', 'got %s want %s' % (np.asarray(s).tolist(), bs.tolist())))
            if m.shape != coarse or not np.allclose(m, bs / pf, rtol=1e-13, atol=0):
                fails.append(('bindown-avg', 'got %s want %s' % (np.asarray(m).tolist(), (bs / pf).tolist())))
            if abs(float(np.asarray(s).sum()) - float(a.sum())) > 1e-9:
                fails.append(('bindown-sum-conserves', 'total %r after, %r before' % (float(np.asarray(s).sum()), float(a.sum()))))
            # digital numbers as expose returns them: an unsigned 8-bit frame close to saturation.  Summing is linear, so the
            # exact bin sums of a + K are the specification's bin sums + K * (samples per bin) -- far above 255
            K = 255 - int(a.max())
            if a.min() + K >= 0:
                si = np.asarray(detector.bindown((a + K).astype(np.uint8), fac, 'sum'))
                if si.shape != coarse or not np.array_equal(si.astype(np.float64), bs + K * pf):
                    fails.append(('bindown-sum-uint8', 'summing a uint8 frame: got %s (%s) want %s' % (si.tolist(), si.dtype, (bs + K * pf).tolist())))
            const = np.full(shape, 3.25)
            if not np.allclose(detector.bindown(const, fac, 'avg'), 3.25, rtol=1e-13):
                fails.append(('bindown-avg-level', 'average of a constant is not the constant'))
            ts = detector.tile(y, fac, 'sum')
            ta = detector.tile(y, fac, 'avg')
            rep = y
            for ax, f in enumerate(factor):
                rep = np.repeat(rep, f, axis=ax)
            if ta.shape != shape or not np.array_equal(ta, rep):
                fails.append(('tile-avg', 'got %s want %s' % (np.asarray(ta).tolist(), rep.tolist())))
            if ts.shape != shape or not np.allclose(ts, rep / pf, rtol=1e-13, atol=0):
                fails.append(('tile-sum', 'got %s want %s' % (np.asarray(ts).tolist(), (rep / pf).tolist())))
            if abs(float(np.asarray(ts).sum()) - float(y.sum())) > 1e-9:
                fails.append(('tile-sum-conserves', 'total %r after, %r before' % (float(np.asarray(ts).sum()), float(y.sum()))))
            # adjointness, on the implementation's own outputs
            if abs(float((np.asarray(s) * y).sum()) - float((a * np.asarray(ta)).sum())) > 1e-9 or \
               abs(float((np.asarray(m) * y).sum()) - float((a * np.asarray(ts)).sum())) > 1e-9:
                fails.append(('adjoint', '<bin x, y> != <x, tile y>'))
    except Exception as ex:
        fails.append(('raised', '%s: %s' % (type(ex).__name__, ex)))
    ctx.replayed(1, key=('bin', shape, factor))
    for kind, m in fails:
        ctx.fail('Sensor:%s:%dD%s' % (kind, len(shape), '' if len(set(factor)) == 1 else ':per-axis'), 'shape=%s factor=%s: %s' % (shape, factor, m[:400]), rec)


def replay_bayer(rec, ctx, np):
    from prysm import bayer
    m, cfa = tuple(rec['m']), rec['cfa']
    colour = np.array(rec['colour'])
    plane = np.array(rec['plane'])
    raw = (np.arange(m[0] * m[1]).reshape(m) + 1).astype(float)
    fails = []
    try:
        r, g1, g2, b = bayer.decomposite_bayer(raw, cfa)
        for name, arr in (('r', r), ('g1', g1), ('g2', g2), ('b', b)):
            want = raw[plane == name].reshape(m[0] // 2, m[1] // 2)
            if arr.shape != want.shape or not np.array_equal(arr, want):
                fails.append(('decomposite', 'plane %s = %s want %s' % (name, np.asarray(arr).tolist(), want.tolist())))
        rec_ = bayer.recomposite_bayer(r, g1, g2, b, cfa)
        if rec_.shape != raw.shape or not np.array_equal(rec_, raw):
            fails.append(('recomposite', 'recomposite(decomposite(x)) != x'))
        full = {n: raw * k for n, k in (('r', 1.0), ('g1', 10.0), ('g2', 100.0), ('b', 1000.0))}
        comp = bayer.composite_bayer(full['r'], full['g1'], full['g2'], full['b'], cfa)
        mult = {'r': 1.0, 'g1': 10.0, 'g2': 100.0, 'b': 1000.0}
        wantc = raw * np.vectorize(mult.get)(plane)
        if comp.shape != raw.shape or not np.array_equal(comp, wantc):
            fails.append(('composite', 'composite picks the wrong plane at some site'))
        dm = bayer.demosaic_malvar(raw.copy(), cfa)
        if dm.shape != m + (3,):
            fails.append(('demosaic_malvar', 'shape %s' % (dm.shape,)))
        else:
            native = np.take_along_axis(dm, colour[..., None], axis=2)[..., 0]
            if not np.array_equal(native, raw):
                fails.append(('demosaic_malvar', 'raw samples not preserved at their native colour sites'))
        di = bayer.demosaic_deinterlace(raw.copy(), cfa)
        if di.shape != (m[0] // 2, m[1] // 2, 3) or not np.array_equal(di[..., 0], r) or not np.array_equal(di[..., 2], b) or \
           not np.allclose(di[..., 1], (g1 + g2) / 2):
            fails.append(('demosaic_deinterlace', 'planes differ from the decomposition'))
    except Exception as ex:
        fails.append(('raised', '%s: %s' % (type(ex).__name__, ex)))
    ctx.replayed(1, key=('bayer', m, cfa))
    for kind, msg in fails:
        ctx.fail('Sensor:bayer:%s:%s' % (kind, cfa), 'mosaic=%s: %s' % (m, msg[:400]), rec)


def run(ctx, replay=None, selftest=False):
    import numpy as np
    for m in ('Rat', 'Sensor'):
        core.sany(m)
    tier = ctx.tier
    fns = {'expose': replay_expose, 'bin': replay_bin, 'bayer': replay_bayer}
    if replay:
        rec = json.load(open(replay))['record']
        c, d = cfg('bayer', tier, False)
        ctx.tlc('Sensor', c, defs=d, name='replay-smoke', emit=False)
        fns[rec['k']](rec, ctx, np)
        return
    allrecs = {}
    for mode in ('expose', 'bin', 'bayer'):
        c, d = cfg(mode, tier, False)
        ctx.tlc('Sensor', c, defs=d, name=mode + '-laws', emit=False, require_actions=('Compute',))
        c, d = cfg(mode, tier, True)
        r = ctx.tlc('Sensor', c, defs=d, name=mode + ':emit', coverage=False, count=False)
        allrecs[mode] = r.records
        for rec in r.records:
            fns[mode](rec, ctx, np)
    # vacuity guard: the pinned ADC ceiling 2^bits must violate the range / monotonicity invariants
    c, d = cfg('expose', tier, False, pinned=True, small=True)
    ctx.tlc('Sensor', c, defs=d, name='pinned-cap', emit=False, must_hold=False, count=False)
    if selftest:
        rec = json.loads(json.dumps(next(r for r in allrecs['bin'] if len(r['shape']) == 2)))
        rec['binsum'][0] += 1
        before = len(ctx.fails)
        replay_bin(rec, ctx, np)
        if len(ctx.fails) == before:
            raise core.Machinery('selftest: corrupted block sum not rejected')
        del ctx.fails[before:]
        ctx.notes.append('selftest: corrupted block sum rejected')
    ctx.sample({k: v for k, v in allrecs['expose'][0].items()})
    ctx.sample(allrecs['bin'][2])
    ctx.sample(allrecs['bayer'][0])
    ctx.bounds = {'expose': MENU[tier], 'bin': BINS[tier], 'mosaics': MOSAICS[tier]}
    ctx.assumptions += ['noise sources are switched off by swapping the random generator through the public back-end shim (poisson -> mean, normal -> mean)',
                        'the integer conversion is left open: DN must be within one count of the exact clipped gain-scaled signal',
                        'bit depths above 24 are not modelled (TLC integers are 32 bit)']

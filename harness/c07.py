"""C07 -- polynomial bases equal their mathematical definitions and are orthogonal.

Spec: OrthoPoly.tla (textbook closed forms in exact ModQ arithmetic; orthogonality and norms through exact moments; the
Chebyshev explicit sums tied to their Jacobi characterisation) and QPoly.tla when present (Gram-Schmidt definition of Qbfs
and 2D-Q).  Binding: every (family, parameters, order) state is exported with its exact values at a menu of rational
points and compared with prysm.polynomials.<family>(n, ..., x) in scalar, 0-D, 1-D and 2-D forms."""
import json
import math
from fractions import Fraction

from . import core, polylib as PL

PROP = 'C07'
THETAS = [0.0, 0.3, 1.1, 2.5, -0.7]


def call_family(P, e, x):
    fam, n, a, b = e['fam'], e['n'], float(e['a']), float(e['b'])
    if fam == 'jacobi':
        return P.jacobi(n, a, b, x)
    if fam == 'laguerre':
        return P.laguerre(n, a, x)
    if fam in ('dickson1', 'dickson2'):
        return getattr(P, fam)(n, a, x)
    if fam == 'qcon':
        return P.Qcon(n, x)
    if fam == 'power':
        return None
    return getattr(P, fam)(n, x)


def replay_values(rec, ctx, np, P):
    e = PL.decode(rec, guard=True)
    fam, n = e['fam'], e['n']
    xs = np.array([float(p) for p in e['pts']])
    want = np.array([float(v) for v in e['vals']])
    scale = 1 + float(core.maxabs(want))
    tol = 2e-10 * scale * (1 + n)
    fails = []
    par = '' if fam not in ('jacobi', 'laguerre', 'dickson1', 'dickson2') else '[%s,%s]' % (e['a'], e['b']) if fam == 'jacobi' else '[%s]' % e['a']
    try:
        if fam == 'zernike':
            m = int(e['a'])
            norm2 = Fraction(2 * (n + 1), 2 if m == 0 else 1)
            for sgn in ((1,) if m == 0 else (1, -1)):
                for th in THETAS:
                    az = 1.0 if m == 0 else (math.cos(m * th) if sgn > 0 else math.sin(m * th))
                    t = np.full_like(xs, th)
                    for norm in (True, False):
                        got = P.zernike_nm(n, sgn * m, xs.copy(), t, norm=norm)
                        w = want * az * (math.sqrt(norm2) if norm else 1.0)
                        if core.maxabs(got - w) > tol * (math.sqrt(norm2) if norm else 1):
                            fails.append(('zernike_nm:%s%s' % ('norm' if norm else 'value', ':m=0' if m == 0 else (':cos' if sgn > 0 else ':sin')),
                                          'n=%d m=%d theta=%g norm=%s: got %s want %s' % (n, sgn * m, th, norm, np.round(got, 9).tolist(), np.round(w, 9).tolist())))
                            break
                    else:
                        continue
                    break
            if abs(float(P.zernike_norm(n, m)) ** 2 - float(norm2)) > 1e-12 * float(norm2):
                fails.append(('zernike_norm', 'zernike_norm(%d,%d)^2 = %r want %s' % (n, m, float(P.zernike_norm(n, m)) ** 2, norm2)))
        elif fam == 'power':
            # XY monomials and Hopkins terms are products of powers
            ys = xs[::-1].copy()
            for m2 in (0, 1, 3):
                wy = ys ** m2
                got = P.xy(n, m2, xs.copy(), ys.copy(), cartesian_grid=False)
                if core.maxabs(got - want * wy) > tol * (1 + core.maxabs(wy)):
                    fails.append(('xy', 'xy(%d,%d): got %s want %s' % (n, m2, np.round(got, 9).tolist(), np.round(want * wy, 9).tolist())))
            for a_ in (0, 2, -3):
                th = 0.37
                az = math.cos(a_ * th) if a_ >= 0 else math.sin(abs(a_) * th)
                H = 0.75
                got = P.hopkins(a_, n, 2, np.abs(xs), np.full_like(xs, th), H)
                w = az * np.abs(want) * H ** 2
                if core.maxabs(got - w) > tol:
                    fails.append(('hopkins', 'hopkins(%d,%d,2): got %s want %s' % (a_, n, np.round(got, 9).tolist(), np.round(w, 9).tolist())))
        else:
            forms = [('1-D', xs.copy()), ('2-D', np.stack([xs, xs[::-1]])), ('0-D', np.array(xs[1])), ('scalar', float(xs[1]))]
            for form, x in forms:
                got = np.asarray(call_family(P, e, x), dtype=float)
                w = want if form == '1-D' else (np.stack([want, want[::-1]]) if form == '2-D' else want[1])
                if got.shape != np.shape(w):
                    if form == 'scalar' and got.size == 1:
                        got = got.reshape(())
                    else:
                        fails.append(('%s:shape:%s' % (fam, form), 'n=%d: result shape %s for input shape %s' % (n, got.shape, np.shape(x))))
                        continue
                if core.maxabs(got - w) > tol:
                    fails.append(('%s:value:%s' % (fam, PL.order_cls(n)), '%s%s n=%d %s: got %s want %s' % (fam, par, n, form, np.round(np.ravel(got), 9).tolist()[:6], np.round(np.ravel(w), 9).tolist()[:6])))
                    break
    except Exception as ex:
        fails.append(('%s:raised' % fam, 'n=%d: %s: %s' % (n, type(ex).__name__, ex)))
    ctx.replayed(1, key=(fam, str(e['a']), str(e['b']), n))
    for kind, msg in fails:
        ctx.fail('Poly:%s' % kind, msg[:600], rec)


def run(ctx, replay=None, selftest=False):
    import numpy as np
    import prysm.polynomials as P
    for m in ('Rat', 'ModQ', 'OrthoPoly'):
        core.sany(m)
    quick = ctx.tier == 'quick'
    maxn = 10 if quick else 20
    extra = None
    try:
        from . import qpolylib
        extra = qpolylib
    except ImportError:
        pass
    if replay:
        rec = json.load(open(replay))['record']
        c, d = PL.cfg([('legendre', (0, 1), (0, 1))], 3, False)
        ctx.tlc('OrthoPoly', c, defs=d, name='replay-smoke', emit=False)
        if rec.get('fam') in ('qbfs', 'q2d') and extra:
            extra.replay_values(rec, ctx, np, P)
        else:
            replay_values(rec, ctx, np, P)
        return
    recs = PL.run_spec(ctx, ctx.tier, maxn)
    from . import modq as _mq
    beyond = 0
    for rec in recs:
        try:
            replay_values(rec, ctx, np, P)
        except _mq.Unreconstructable:
            # the exact value has more than 124 bits in numerator or denominator: outside what 16 primes can carry back to a rational.
            # TLC has still checked the laws for this state; only the value comparison against prysm is not made
            beyond += 1
    if beyond:
        ctx.notes.append('%d of %d emitted states carry values beyond the reconstruction bound of the residue carrier and were not compared with prysm' % (beyond, len(recs)))
        if beyond * 3 > len(recs):
            raise core.Machinery('%d of %d emitted states are beyond the reconstruction bound' % (beyond, len(recs)))
    if extra:
        extra.run_c07(ctx, np, P)
    if selftest:
        rec = json.loads(json.dumps(next(r for r in recs if r['fam'] == 'legendre' and r['n'] == 4)))
        from . import modq
        rec['vals'][2] = modq.from_fraction(modq.to_fraction(rec['vals'][2]) * Fraction(1001, 1000))
        before = len(ctx.fails)
        replay_values(rec, ctx, np, P)
        if len(ctx.fails) == before:
            raise core.Machinery('selftest: a 0.1% wrong exact value was not rejected')
        del ctx.fails[before:]
        ctx.notes.append('selftest: exact value off by 0.1% rejected')
    e = PL.decode(recs[7])
    ctx.sample({'fam': e['fam'], 'a': str(e['a']), 'b': str(e['b']), 'n': e['n'], 'points': [str(p) for p in e['pts']], 'exact_values': [str(v) for v in e['vals']]})
    ctx.bounds = {'max_order': maxn, 'cases': [list(map(str, c)) for c in PL.cases(ctx.tier)], 'points': {'unit': PL.UNIT, 'radial': PL.RAD, 'real': PL.REAL, 'positive': PL.POS}}
    ctx.assumptions += ['exact values reconstructed from residues modulo 16 primes (self-checked); compared at 2e-10 (1+n) relative to the largest value over the point menu',
                        'orders above the bound are not examined']

"""C08 -- sequence evaluation equals one-at-a-time evaluation.  Spec: SeqSweep.tla (running-index sweep for every ascending
request, derivative sweep, two-index lookup machine, exact numpy-broadcast model for the per-order scale).  Binding: every
emitted request is replayed into every *_seq routine of prysm.polynomials on several coordinate-array shapes and slot j is
compared with the library's own single-order function for the order requested in slot j (the property's statement)."""
import json

from . import core

PROP = 'C08'
COORD = {'quick': [(), (5,), (3, 4), (2, 2)], 'thorough': [(), (5,), (3, 4), (4, 3), (2, 2), (3, 3), (1, 3), (2, 3, 2)]}


def cfg(mode, emit, maxo=8, scalerank='full', maxreq=2, maxn=4):
    c = 'INIT Init\nNEXT Next\nCHECK_DEADLOCK FALSE\nCONSTANTS\n Mode = "%s"\n MaxOrder = %d\n MaxReq = %d\n ScaleRank = "%s"\n EmitOn = %s\n' % (
        mode, maxo, maxreq, scalerank, 'TRUE' if emit else 'FALSE')
    c += 'INVARIANT Emit\n' if emit else 'INVARIANT RecurrenceInv\nINVARIANT SweepLaw\nINVARIANT LookupLaw\nINVARIANT ScaleAlongAxis0\n'
    pairs = [(n, m) for n in range(0, maxn + 1) for m in range(-n, n + 1) if (n - abs(m)) % 2 == 0]
    d = dict(SeedSet='{2, 3}', Variants='{"value", "der"}', Pairs='{%s}' % ', '.join('<<%d, %d>>' % p for p in pairs),
             CoordShapes='{<<>>, <<5>>, <<3, 4>>, <<4, 3>>, <<2, 2>>, <<3, 3>>, <<4, 4>>, <<1, 3>>, <<2, 3, 2>>}')
    return c, d


def families(P):
    """(name, seq, single, extra args, domain) for the one-index families; value and derivative forms."""
    F = []
    for a, b in ((0.0, 0.0), (-0.5, 0.5), (1.0, 4.0), (0.5, -0.5), (2.5, 0.0)):
        F.append(('jacobi[%g,%g]' % (a, b), lambda ns, x, a=a, b=b: P.jacobi_seq(ns, a, b, x), lambda n, x, a=a, b=b: P.jacobi(n, a, b, x), 'unit'))
        F.append(('jacobi_der[%g,%g]' % (a, b), lambda ns, x, a=a, b=b: P.jacobi_der_seq(ns, a, b, x), lambda n, x, a=a, b=b: P.jacobi_der(n, a, b, x), 'unit'))
    for nm in ('legendre', 'cheby1', 'cheby2', 'cheby3', 'cheby4', 'hermite_He', 'hermite_H'):
        dom = 'real' if nm.startswith('hermite') else 'unit'
        F.append((nm, getattr(P, nm + '_seq'), getattr(P, nm), dom))
        F.append((nm + '_der', getattr(P, nm + '_der_seq'), getattr(P, nm + '_der'), dom))
    for al in (0.0, 1.5):
        F.append(('laguerre[%g]' % al, lambda ns, x, al=al: P.laguerre_seq(ns, al, x), lambda n, x, al=al: P.laguerre(n, al, x), 'pos'))
        F.append(('laguerre_der[%g]' % al, lambda ns, x, al=al: P.laguerre_der_seq(ns, al, x), lambda n, x, al=al: P.laguerre_der(n, al, x), 'pos'))
    for al in (0.0, 1.0, -0.75):
        F.append(('dickson1[%g]' % al, lambda ns, x, al=al: P.dickson1_seq(ns, al, x), lambda n, x, al=al: P.dickson1(n, al, x), 'real'))
        F.append(('dickson2[%g]' % al, lambda ns, x, al=al: P.dickson2_seq(ns, al, x), lambda n, x, al=al: P.dickson2(n, al, x), 'real'))
    F.append(('Qbfs', P.Qbfs_seq, P.Qbfs, 'rad'))
    F.append(('Qcon', P.Qcon_seq, P.Qcon, 'rad'))
    return F


def coords(shape, dom, np, salt=0):
    n = 1
    for s in shape:
        n *= s
    k = np.arange(n, dtype=float) + salt * 0.37
    u = ((k * 0.618033988749895 + 0.137) % 1.0)          # irrational rotation: all different
    if dom == 'unit':
        v = 1.8 * u - 0.9
    elif dom == 'rad':
        v = 0.05 + 0.9 * u
    elif dom == 'pos':
        v = 0.1 + 3 * u
    else:
        v = 4 * u - 2
    return v.reshape(shape) if shape else np.array(v[0])


def shape_cls(shape, L):
    if len(shape) == 0:
        return '0-D'
    if len(shape) == 1:
        return '1-D'
    return '%d-D%s' % (len(shape), ':rows=orders' if shape[0] == L else '')


def req_cls(ns):
    gap = any(b - a > 1 for a, b in zip(ns, ns[1:]))
    return 'start=%s%s%s' % (ns[0] if ns[0] < 3 else '3+', ':gapped' if gap else '', ':single' if len(ns) == 1 else '')


def replay_sweep(rec, ctx, np, P, fams, shapes):
    ns = list(rec['ns'])
    L = len(ns)
    is_der = rec['variant'] == 'der'
    for name, seq, single, dom in fams:
        if ('_der' in name) != is_der:
            continue
        for shape in list(shapes) + [(L, 3)]:
            x = coords(shape, dom, np, salt=L)
            sig = None
            try:
                got = np.asarray(seq(ns, x))
                if got.shape != (L,) + tuple(shape):
                    sig, det = 'shape', 'result shape %s, want %s' % (got.shape, (L,) + tuple(shape))
                else:
                    for j, n in enumerate(ns):
                        want = np.asarray(single(n, x))
                        if not np.allclose(got[j], want, rtol=1e-9, atol=1e-9 * (1 + core.maxabs(want))):
                            sig, det = 'slot', 'slot %d (order %d) differs from the single-order function: %s vs %s' % (
                                j, n, np.round(np.ravel(got[j])[:4], 6).tolist(), np.round(np.ravel(want)[:4], 6).tolist())
                            break
            except Exception as ex:
                sig, det = 'raised', '%s: %s' % (type(ex).__name__, ex)
            ctx.replayed(1, key=(name, tuple(ns), shape))
            if sig:
                base = name.split('[')[0]
                extra = ':n=0' if (sig == 'slot' and n == 0) else ''
                ctx.fail('Seq:%s_seq:%s:%s%s' % (base, sig, shape_cls(shape, L) if sig != 'slot' or 'cheby' in base else req_cls(ns), extra),
                         '%s ns=%s x.shape=%s: %s' % (name, ns, shape, det), rec)


def replay_lookup(rec, ctx, np, P, shapes):
    req = [tuple(p) for p in rec['req']]
    L = len(req)
    for shape in list(shapes) + [(L, 3)]:
        r = coords(shape, 'rad', np, salt=1)
        t = coords(shape, 'real', np, salt=2)
        x = coords(shape, 'real', np, salt=3)
        y = coords(shape, 'real', np, salt=4)
        cases = [('zernike_nm_seq', lambda: P.zernike_nm_seq(req, r, t, norm=True), lambda n, m: P.zernike_nm(n, m, r, t, norm=True), (L,) + tuple(shape)),
                 ('zernike_nm_seq:norm=False', lambda: P.zernike_nm_seq(req, r, t, norm=False), lambda n, m: P.zernike_nm(n, m, r, t, norm=False), (L,) + tuple(shape)),
                 ('zernike_nm_der_seq', lambda: P.zernike_nm_der_seq(req, r, t, norm=True), lambda n, m: np.asarray(P.zernike_nm_der(n, m, r, t, norm=True)), (L, 2) + tuple(shape)),
                 ('Q2d_seq', lambda: P.Q2d_seq(req, r, t), lambda n, m: P.Q2d(n, m, r, t), (L,) + tuple(shape)),
                 ('xy_seq', lambda: np.asarray(P.xy_seq([(n, abs(m)) for n, m in req], x, y, cartesian_grid=False)),
                  lambda n, m: P.xy(n, abs(m), x, y, cartesian_grid=False), (L,) + tuple(shape))]
        if len(shape) == 2:
            # the documented use: a Cartesian meshgrid (xy_seq may exploit separability, the result may not lose its shape)
            gx, gy = np.meshgrid(coords((shape[1],), 'real', np, salt=5), coords((shape[0],), 'real', np, salt=6))
            def mesh_seq():
                modes = P.xy_seq([(n, abs(m)) for n, m in req], gx, gy, cartesian_grid=True)
                shp = {tuple(np.shape(a_)) for a_ in modes}
                if shp != {tuple(shape)}:
                    return np.zeros((L,) + sorted(shp - {tuple(shape)})[0])      # reported as a shape disagreement
                return np.stack(modes)
            cases.append(('xy_seq:meshgrid', mesh_seq, lambda n, m: np.broadcast_to(P.xy(n, abs(m), gx, gy, cartesian_grid=True), shape), (L,) + tuple(shape)))
        for name, seq, single, wshape in cases:
            sig = None
            try:
                got = np.asarray(seq())
                if got.shape != wshape:
                    sig, det = 'shape', 'result shape %s, want %s' % (got.shape, wshape)
                else:
                    for j, (n, m) in enumerate(req):
                        want = np.asarray(single(n, m))
                        if not np.allclose(got[j], want, rtol=1e-9, atol=1e-9 * (1 + core.maxabs(want))):
                            zero = (name == 'xy_seq' and (n == 0 or m == 0))
                            sig, det = 'slot' + (':zero-exponent' if zero else ''), 'slot %d (%d, %d) differs from the single function: %s vs %s' % (
                                j, n, m, np.round(np.ravel(got[j])[:4], 6).tolist(), np.round(np.ravel(want)[:4], 6).tolist())
                            break
            except Exception as ex:
                sig, det = 'raised', '%s: %s' % (type(ex).__name__, ex)
            ctx.replayed(1, key=(name, tuple(req), shape))
            if sig:
                ctx.fail('Seq:%s:%s:%s' % (name, sig, shape_cls(shape, L)), 'req=%s shape=%s: %s' % (req, shape, det), rec)


def run(ctx, replay=None, selftest=False):
    import numpy as np
    import prysm.polynomials as P
    core.sany('SeqSweep')
    quick = ctx.tier == 'quick'
    shapes = COORD[ctx.tier]
    fams = families(P)
    if replay:
        rec = json.load(open(replay))['record']
        c, d = cfg('shape', False)
        ctx.tlc('SeqSweep', c, defs=d, name='replay-smoke', emit=False)
        if rec['k'] == 'sweep':
            replay_sweep(rec, ctx, np, P, fams, shapes)
        else:
            replay_lookup(rec, ctx, np, P, shapes)
        return
    maxo = 7 if quick else 9
    for mode in ('sweep', 'lookup', 'shape'):
        c, d = cfg(mode, False, maxo=maxo, maxreq=2 if quick else 3)
        ctx.tlc('SeqSweep', c, defs=d, name=mode + '-laws', emit=False)
    c, d = cfg('shape', False, scalerank='column')
    ctx.tlc('SeqSweep', c, defs=d, name='pinned-scale-column', emit=False, must_hold=False, count=False)
    c, d = cfg('sweep', True, maxo=maxo)
    r1 = ctx.tlc('SeqSweep', c, defs=d, name='sweep:emit', coverage=False, count=False)
    seen = set()
    for rec in r1.records:
        key = (tuple(rec['ns']), rec['variant'])
        if key in seen:
            continue          # the seed count is a property of the family, not of the request
        seen.add(key)
        replay_sweep(rec, ctx, np, P, fams, shapes)
    c, d = cfg('lookup', True, maxreq=2 if quick else 3, maxn=4 if quick else 5)
    r2 = ctx.tlc('SeqSweep', c, defs=d, name='lookup:emit', coverage=False, count=False)
    for rec in r2.records:
        replay_lookup(rec, ctx, np, P, shapes)
    if selftest:
        orig = P.jacobi_seq
        P.jacobi_seq = lambda ns, a, b, x: orig(ns, a, b, x)[::-1] if len(ns) > 1 else orig(ns, a, b, x)
        fams2 = [f for f in families(P) if f[0].startswith('jacobi[0,0]')]
        before = len(ctx.fails)
        try:
            replay_sweep({'ns': [0, 2, 3], 'variant': 'value'}, ctx, np, P, fams2, shapes[:2])
        finally:
            P.jacobi_seq = orig
        if len(ctx.fails) == before:
            raise core.Machinery('selftest: reversed sequence not rejected')
        del ctx.fails[before:]
        ctx.notes.append('selftest: a sequence returned in reversed order was rejected')
    ctx.sample({'request': r1.records[5]['ns'], 'variant': r1.records[5]['variant'], 'model_out': r1.records[5]['out']})
    ctx.sample({'lookup_request': r2.records[-1]['req']})
    ctx.bounds = {'max_order': maxo, 'coord_shapes': shapes + ['(len(ns), 3)'], 'families': sorted({f[0] for f in fams}), 'lookup_max_pairs': 2 if quick else 3}
    ctx.assumptions += ['slot j is compared with the library\'s own single-order function (the property\'s statement); the single-order functions are bound to their definitions by C07',
                        'coordinates are an irrational rotation sequence inside the family\'s domain, so no two orders coincide']

"""Shared by C01 / C02 / C05 / C06: running spec/Dft.tla and turning its exact exponent tables into numbers."""
import math
from fractions import Fraction

from . import core

LAWS_AXIS = ('MdftLaw', 'CztLaw', 'ConjLaw', 'UnitaryLaw', 'RoundTripLaw', 'EmbedLaw', 'TransposeLaw')


def tup(xs):
    return '{%s}' % ', '.join('<<%d, %d>>' % tuple(t) for t in xs)


def rng(xs):
    return '{%s}' % ', '.join(str(x) for x in xs)


def axis_rec(n, m, q, s):
    return '[n |-> %d, m |-> %d, q |-> <<%d, %d>>, s |-> <<%d, %d>>]' % (n, m, q[0], q[1], s[0], s[1])


def dft_cfg(mode, Ns, Ms, Qs, Ss, invs=(), pinned=False, emit=False, partners=(), nqs=(), dirs=(1, -1), slack=(0, 1, 3), keypairs=()):
    cfg = 'INIT Init\nNEXT Next\nCHECK_DEADLOCK FALSE\nCONSTANTS\n Mode = "%s"\n Pinned = %s\n EmitOn = %s\n' % (
        mode, 'TRUE' if pinned else 'FALSE', 'TRUE' if emit else 'FALSE')
    cfg += ''.join('INVARIANT %s\n' % i for i in invs)
    if emit:
        cfg += 'INVARIANT Emit\n'
    defs = dict(Ns=rng(Ns), Ms=rng(Ms), Qs=tup(Qs), Ss=tup(Ss), Dirs=rng(dirs),
                Partners='{%s}' % ', '.join(axis_rec(*p) for p in partners), NQs=tup(nqs), Slack=rng(slack),
                KeyPairs='{%s}' % ', '.join('<<%s, %s>>' % (axis_rec(*a), axis_rec(*b)) for a, b in keypairs))
    return cfg, defs


def emit_partitioned(ctx, name, mode, Ns, Ms, Qs, Ss, parts=None, **kw):
    """Enumerate a Dft.tla configuration space on several single-worker JVMs (partitioned by input length) and
    return all emitted records."""
    parts = parts or [[n] for n in Ns]
    thunks = []
    for i, p in enumerate(parts):
        if mode == 'pairs':
            # the partner axis is unrestricted; partition the free axis
            cfg, defs = dft_cfg(mode, p, Ms, Qs, Ss, emit=True, **kw)
        elif mode in ('fft', 'fixed'):
            cfg, defs = dft_cfg(mode, Ns, Ms, Qs, Ss, emit=True, **kw)
            if i > 0:
                continue
        else:
            cfg, defs = dft_cfg(mode, p, Ms, Qs, Ss, emit=True, **kw)
        thunks.append(lambda c=cfg, d=defs, i=i: ctx.tlc('Dft', c, defs=d, name='%s:emit%d' % (name, i), coverage=False))
    out = []
    for r in core.parallel(thunks):
        out += r.records
    return out


# ---------------------------------------------------------------------------------------------
# interpretation of exact tables

def root(e, L):
    """zeta_L^e evaluated with exact argument reduction."""
    e %= L
    # use symmetries so that exact values (1, i, -1, -i) come out exact
    fr = Fraction(e, L)
    if fr == 0:
        return 1 + 0j
    if fr == Fraction(1, 2):
        return -1 + 0j
    if fr == Fraction(1, 4):
        return 1j
    if fr == Fraction(3, 4):
        return -1j
    a = 2 * math.pi * e / L
    return complex(math.cos(a), math.sin(a))


def table(E, L, np):
    return np.array([[root(e, L) for e in rowv] for rowv in E], dtype=complex).reshape(len(E), len(E[0]) if E else 0)


def expected(rec, f, np):
    """norm * Er @ f @ Ec^T for one emitted 2-D configuration."""
    Er = table(rec['rowE'], rec['rowL'], np)
    Ec = table(rec['colE'], rec['colL'], np)
    r, c = rec['row'], rec['col']
    normsq = Fraction(r['q'][1], r['n'] * r['q'][0]) * Fraction(c['q'][1], c['n'] * c['q'][0])
    return (Er @ f @ Ec.T) * math.sqrt(normsq)


def field(nr, nc, np, cplx=True, salt=0):
    """Deterministic Gaussian-integer test field in which every sample is different."""
    y = np.arange(nr)[:, None]
    x = np.arange(nc)[None, :]
    re = ((3 * y + 7 * x + 1 + salt) % 11) - 4 + (y == x) * 2
    im = ((5 * y + 2 * x + 3 + 2 * salt) % 7) - 3
    return (re + 1j * im).astype(complex) if cplx else re.astype(float)


def qf(q):
    return q[0] / q[1]


def cls_axis(a):
    """Configuration class of an axis (used in violation signatures)."""
    par = lambda n: 'e' if n % 2 == 0 else 'o'
    q = Fraction(a['q'][0], a['q'][1])
    return '%s%s%s' % (par(a['n']), par(a['m']), '' if a['s'][0] == 0 else 's')

"""C04 -- one origin convention.  Spec: spec/Grid.tla.  Binding: replay of every TLC behaviour into
fttools.pad2d / crop_center / fftrange / forward_ft_unit, coordinates.make_xy_grid, RichData.x/y/slices,
psf.centroid and Wavefront.pad2d / crop."""
import json
from fractions import Fraction

from . import core

PROP = 'C04'


LAWS = ('TypeOK', 'OriginInv', 'CoordInv', 'NoDup', 'CropUndoesPad', 'GridZero', 'FreqInv', 'CentroidInv')


def cfg(maxr, maxc, depth, modes, qs, dxs):
    """Returns (laws_cfg, emit_cfg, defs): the same model checked for its laws on 16 workers and
    re-enumerated on one worker only to print its behaviours."""
    head = '''INIT Init
NEXT Next
CHECK_DEADLOCK FALSE
CONSTANTS
  MaxR = %d
  MaxC = %d
  Depth = %d
''' % (maxr, maxc, depth)
    laws = head + '  EmitOn = FALSE\n' + ''.join('INVARIANT %s\n' % i for i in LAWS)
    emit = head + '  EmitOn = TRUE\nINVARIANT Emit\n'
    defs = {'Modes': '{%s}' % ', '.join('"%s"' % m for m in modes),
            'Qs': '{%s}' % ', '.join('<<%d, %d>>' % q for q in qs),
            'Dxs': '{%s}' % ', '.join('<<%d, %d>>' % d for d in dxs)}
    return laws, emit, defs


ALLM = ('constant0', 'constantV', 'edge', 'wrap')
PLANS = {
    'quick': [
        ('2d-depth1', cfg(7, 7, 1, ALLM, [(2, 1), (3, 2), (5, 4)], [(1, 2), (3, 1)])),
        ('rows-depth3', cfg(12, 1, 3, ('constant0',), [(2, 1), (3, 2)], [(1, 1)])),
        ('cols-depth3', cfg(1, 12, 3, ('constant0',), [(2, 1), (3, 2)], [(1, 1)])),
        ('2d-depth2', cfg(4, 5, 2, ('constant0', 'edge'), [(2, 1)], [(1, 1)])),
    ],
    'thorough': [
        ('2d-depth1', cfg(12, 12, 1, ALLM, [(2, 1), (3, 2), (5, 4), (3, 1), (7, 4)], [(1, 2), (3, 1), (7, 5)])),
        ('rows-depth4', cfg(12, 1, 4, ('constant0', 'constantV'), [(2, 1), (3, 2)], [(1, 1)])),
        ('cols-depth4', cfg(1, 12, 4, ('constant0', 'constantV'), [(2, 1), (3, 2)], [(1, 1)])),
        ('2d-depth3', cfg(5, 5, 3, ('constant0', 'wrap'), [(2, 1), (3, 2)], [(1, 1)])),
    ],
}
FILLV = 7  # concrete value for "constantV"


def par(n):
    return 'even' if n % 2 == 0 else 'odd'


def code(y, x):
    return (y + 50) * 100 + (x + 50)


def initial(r, c, np):
    y = np.arange(r) - r // 2
    x = np.arange(c) - c // 2
    return (y[:, None] + 50) * 100 + (x[None, :] + 50)


def apply_op(a, op, np, via='fttools'):
    from prysm import fttools
    kind = op['op']
    if kind == 'crop':
        shp = (op['r'], op['c'])
        if via == 'wavefront':
            from prysm.propagation import Wavefront
            return Wavefront(a.astype(complex), .5, 1.).crop(shp).data.real.astype(int)
        if op['r'] == op['c'] and via == 'scalar':
            shp = op['r']
        return fttools.crop_center(a, shp)
    mode = op['mode']
    kw = {}
    if mode == 'constant0':
        kw = dict(value=0, mode='constant')
        a = a.copy()
    elif mode == 'constantV':
        kw = dict(value=FILLV, mode='constant')
    else:
        kw = dict(mode=mode)
    if kind == 'padQ':
        kw['Q'] = op['qn'] / op['qd']
    else:
        kw['out_shape'] = (op['r'], op['c'])
        if op['r'] == op['c'] and via == 'scalar':
            kw['out_shape'] = op['r']
    if via == 'wavefront':
        from prysm.propagation import Wavefront
        kw.setdefault('Q', 2)
        return Wavefront(a.astype(complex), .5, 1.).pad2d(**kw).data.real.astype(int)
    return fttools.pad2d(a, **kw)


def expected(rec, np):
    e = np.array(rec['arr'], dtype=int).reshape(rec['r'], rec['c'])
    return e


def step_sig(site, op, r0, c0, bad_axis):
    n, m = (r0, op['r']) if bad_axis == 0 else (c0, op['c'])
    k = 'crop' if op['op'] == 'crop' else 'pad'
    md = '' if k == 'crop' else ':' + ('constant' if op['mode'].startswith('constant') else op['mode'])
    return 'Grid:%s:%s%s:%s->%s' % (site, k, md, par(n), par(m))


def check_static(rec, ctx, np):
    """Coordinate vectors, grids, frequency axes, slices and centroids for one shape.  A prysm call that raises
    inside the specified domain is a disagreement, not a machinery failure."""
    try:
        return _check_static(rec, ctx, np)
    except core.Machinery:
        raise
    except Exception as ex:
        import traceback
        tb = traceback.extract_tb(ex.__traceback__)
        site = next((f.name for f in reversed(tb) if '/prysm/' in f.filename), 'harness')
        if site == 'harness':
            raise
        return [('Grid:%s:raised:%s,%s' % (site, par(rec['r']), par(rec['c'])),
                 'shape=%s raised %s: %s' % ((rec['r'], rec['c']), type(ex).__name__, ex))]


def _check_static(rec, ctx, np):
    from prysm import fttools, coordinates, psf
    from prysm._richdata import RichData
    r, c = rec['r'], rec['c']
    dx = Fraction(rec['dxn'], rec['dxd'])
    fdx = float(dx)
    ys, xs = np.array(rec['ys']), np.array(rec['xs'])
    out = []
    for n, v, ax in ((r, ys, 'y'), (c, xs, 'x')):
        got = fttools.fftrange(n)
        if got.shape != (n,) or not np.array_equal(got, v):
            out.append(('Grid:fftrange:%s' % par(n), 'fftrange(%d)=%s want %s' % (n, got.tolist(), v.tolist())))
        for shift, want in ((True, v), (False, np.array(rec['fyn'] if ax == 'y' else rec['fxn']))):
            f = fttools.forward_ft_unit(fdx, n, shift=shift)
            w = want / (n * fdx)
            if f.shape != (n,) or not np.allclose(f, w, rtol=1e-12, atol=0) or (f[want == 0] != 0).any():
                out.append(('Grid:forward_ft_unit:shift=%s:%s' % (shift, par(n)),
                            'n=%d dx=%s got %s want %s' % (n, dx, f.tolist(), w.tolist())))
    for shp in ([(r, c)] + ([r] if r == c else [])):
        gx, gy = coordinates.make_xy_grid(shp, dx=fdx)
        wx, wy = np.meshgrid(xs * fdx, ys * fdx)
        if gx.shape != (r, c) or gy.shape != (r, c) or not np.allclose(gx, wx, rtol=1e-13, atol=0) \
                or not np.allclose(gy, wy, rtol=1e-13, atol=0) or gx[rec['oy'], rec['ox']] != 0 or gy[rec['oy'], rec['ox']] != 0 \
                or (gx[:, rec['ox']] != 0).any() or (gy[rec['oy'], :] != 0).any():
            out.append(('Grid:make_xy_grid:%s,%s' % (par(r), par(c)), 'shape=%s dx=%s' % (shp, dx)))
        vx, vy = coordinates.make_xy_grid(shp, dx=fdx, grid=False)
        if not np.allclose(vx, xs * fdx, rtol=1e-13, atol=0) or not np.allclose(vy, ys * fdx, rtol=1e-13, atol=0):
            out.append(('Grid:make_xy_grid:vectors:%s,%s' % (par(r), par(c)), 'shape=%s' % (shp,)))
        # diameter form: dx = diameter / max(shape)
        gx2, gy2 = coordinates.make_xy_grid(shp, diameter=fdx * max(r, c))
        if not np.allclose(gx2, wx, rtol=1e-12, atol=0) or not np.allclose(gy2, wy, rtol=1e-12, atol=0) or gx2[rec['oy'], rec['ox']] != 0:
            out.append(('Grid:make_xy_grid:diameter:%s,%s' % (par(r), par(c)), 'shape=%s' % (shp,)))
    a = initial(r, c, np).astype(float)
    rd = RichData(a, fdx, .5)
    if rd.x.shape != (r, c) or not np.allclose(rd.x[0], xs * fdx, rtol=1e-13, atol=0) or not np.allclose(rd.y[:, 0], ys * fdx, rtol=1e-13, atol=0):
        out.append(('Grid:RichData.xy:%s,%s' % (par(r), par(c)), 'shape=%s' % ((r, c),)))
    for two in (True, False):
        s = rd.slices(twosided=two)
        ux, vx_ = s.x
        uy, vy_ = s.y
        ox, oy = rec['ox'], rec['oy']
        lo_x, lo_y = (0, 0) if two else (ox, oy)
        ok = (np.allclose(ux, xs[lo_x:] * fdx, rtol=1e-13, atol=0) and np.allclose(uy, ys[lo_y:] * fdx, rtol=1e-13, atol=0)
              and np.array_equal(vx_, a[oy, lo_x:]) and np.array_equal(vy_, a[lo_y:, ox]))
        if not ok:
            out.append(('Grid:RichData.slices:twosided=%s:%s,%s' % (two, par(r), par(c)), 'shape=%s' % ((r, c),)))
    # centroid of a point source at every sample
    for i in range(r):
        for j in range(c):
            d = np.zeros((r, c))
            d[i, j] = 3.
            cy, cx = psf.centroid(d, dx=fdx)
            wy_, wx_ = float(ys[i] * dx), float(xs[j] * dx)
            if abs(cy - wy_) > 1e-12 * max(1, abs(wy_)) or abs(cx - wx_) > 1e-12 * max(1, abs(wx_)):
                bad = par(r) if abs(cy - wy_) > 1e-12 * max(1, abs(wy_)) else par(c)
                out.append(('Grid:psf.centroid:%s' % bad, 'shape=%s point=%s got=(%g,%g) want=(%g,%g)' % ((r, c), (i, j), cy, cx, wy_, wx_)))
                break
        else:
            continue
        break
    return out


def run(ctx, replay=None, selftest=False):
    import numpy as np
    core.sany('Grid')
    if replay:
        blob = json.load(open(replay))
        recs = [blob['record']]
        c0, _, d0 = cfg(2, 2, 0, ('constant0',), [(2, 1)], [(1, 1)])
        ctx.tlc('Grid', c0, defs=d0, name='replay-smoke', emit=False)
        _replay(recs, ctx, np, lenient=True)
        return
    plans = PLANS[ctx.tier]
    emits = core.parallel([(lambda n=name, e=emit, d=defs: ctx.tlc('Grid', e, defs=d, name=n + ':emit', count=False, coverage=False))
                           for name, (laws, emit, defs) in plans], background=True)
    for name, (laws, emit, defs) in plans:
        ctx.tlc('Grid', laws, defs=defs, name=name, emit=False, require_actions=('PadShape', 'Crop'))
    for (name, _), r in zip(plans, emits()):
        _replay(r.records, ctx, np, selftest=selftest and name.startswith('2d-depth1'))
    ctx.bounds = {'plans': [n for n, _ in PLANS[ctx.tier]]}
    ctx.assumptions += ['labels are the signed coordinates of the original samples; a disagreement in any cell is a failure',
                        'pad2d is specified for out_shape >= in_shape per axis and crop_center for out_shape <= in_shape',
                        'Q menu is dyadic so that ceil(s*Q) is exact in binary floating point']


def _replay(records, ctx, np, selftest=False, lenient=False):
    """Every record is one state = one behaviour (its hist from shape hist0).  TLC emits breadth-first, so the
    record of every proper prefix precedes it; the replay compares after EVERY action and a disagreement is
    reported once, by the shortest behaviour that shows it (the one whose last action diverges)."""
    flipped = False
    want = {}
    for rec in records:
        r, c = rec['r'], rec['c']
        hist = rec['hist']
        r0, c0 = rec['hist0']
        want[(r0, c0, json.dumps(hist, sort_keys=True))] = np.array(rec['arr'], dtype=int).reshape(r, c)
    for rec in records:
        r, c = rec['r'], rec['c']
        hist = rec['hist']
        if not hist:
            ctx.replayed(1, key=('static', r, c, rec['dxn'], rec['dxd']))
            for sig, det in check_static(rec, ctx, np):
                ctx.fail(sig, det, rec)
            ctx.sample({'kind': 'static', 'shape': [r, c], 'dx': [rec['dxn'], rec['dxd']], 'ys': rec['ys'], 'xs': rec['xs']}, cap=2)
            continue
        r0, c0 = rec['hist0']
        for via in ('fttools', 'wavefront', 'scalar'):
            a = initial(r0, c0, np)
            for k, op in enumerate(hist):
                last = k == len(hist) - 1
                e = want.get((r0, c0, json.dumps(hist[:k + 1], sort_keys=True)))
                if e is None and lenient:
                    a = np.asarray(apply_op(a, op, np, via=via))
                    continue
                if e is None:
                    raise core.Machinery('prefix of an emitted behaviour was not emitted: %s' % hist[:k + 1])
                det = None
                try:
                    a = np.asarray(apply_op(a, op, np, via=via))
                except Exception as ex:  # the call is inside the specified domain: raising is a disagreement
                    det = 'raised %s: %s' % (type(ex).__name__, ex)
                if det is None:
                    ok = _same(a, e, hist[:k + 1], np)
                    if selftest and not flipped and ok and last and a.size > 1:
                        a2 = a.copy()
                        a2[0, 0] += 1
                        if _same(a2, e, hist, np):
                            raise core.Machinery('selftest: a corrupted cell was not rejected')
                        flipped = True
                        ctx.notes.append('selftest: corrupted replay result rejected')
                    if not ok:
                        det = 'got %s want %s' % (a.tolist(), e.tolist())
                if det is not None:
                    if last:
                        sr, sc = (r0, c0) if k == 0 else (hist[k - 1]['r'], hist[k - 1]['c'])
                        axis = _bad_axis(a, e, np) if det.startswith('got') else 0
                        site = {'fttools': 'fttools', 'scalar': 'fttools', 'wavefront': 'Wavefront'}[via]
                        ctx.fail(step_sig(site, op, sr, sc, axis), 'init=%s hist=%s %s' % ((r0, c0), hist, det[:300]), rec)
                    break
            ctx.replayed(1, key=(via, r0, c0, json.dumps(hist, sort_keys=True)))
        ctx.sample({'kind': 'history', 'init': [r0, c0], 'hist': hist, 'final': rec['arr']})


def _same(val, e, hist, np):
    """Fill cells (0 in the spec) must hold the fill value of the pad that created them.  With mixed fill
    values in one history the spec does not distinguish them, so accept either 0 or FILLV there."""
    if val.shape != e.shape:
        return False
    fills = {0 if o['mode'] == 'constant0' else FILLV for o in hist if o['op'] != 'crop' and o['mode'].startswith('constant')}
    m = e == 0
    if not np.array_equal(val[~m], e[~m]):
        return False
    if m.any():
        if not fills:
            return False
        return bool(np.isin(val[m], list(fills)).all())
    return True


def _bad_axis(val, e, np):
    if val.shape != e.shape:
        return 0 if val.shape[0] != e.shape[0] else 1
    # compare the row coordinate part and column coordinate part of the labels
    m = (e != 0) & (val != 0) & (val != FILLV)
    if m.any():
        vy, vx = val[m] // 100, val[m] % 100
        ey, ex = e[m] // 100, e[m] % 100
        if (vy != ey).any():
            return 0
        if (vx != ex).any():
            return 1
    # placement differs only in which cells are fill: project
    rows_e = (e != 0).any(axis=1)
    if not np.array_equal((val != 0) & (val != FILLV), e != 0):
        if not np.array_equal(((val != 0) & (val != FILLV)).any(axis=1), rows_e):
            return 0
        return 1
    return 0


if __name__ == '__main__':
    import sys
    sys.exit(core.main_check(PROP, run, sys.argv[1:]))

"""Shared by C07 / C09 / C10: running spec/OrthoPoly.tla and comparing prysm's polynomial routines with its exact values."""
import math
from fractions import Fraction

from . import core, dftlib as D, modq

UNIT = [(-1, 1), (-7, 8), (-1, 2), (-1, 3), (0, 1), (1, 5), (1, 2), (3, 4), (1, 1)]
RAD = [(0, 1), (1, 8), (1, 3), (1, 2), (2, 3), (7, 8), (1, 1)]
REAL = [(-2, 1), (-3, 4), (0, 1), (1, 3), (3, 2)]
POS = [(0, 1), (1, 4), (1, 1), (5, 2)]
LAWS = ('Orthogonal', 'ChebyIsJacobi', 'ZernikeOrtho')


def rat(t):
    return '<<%d, %d>>' % tuple(t)


def cases(tier):
    ab = [(0, 1), (-1, 2), (1, 2), (1, 1), (3, 2), (4, 1)] if tier == 'thorough' else [(0, 1), (-1, 2), (1, 1), (4, 1)]
    out = []
    for a in ab:
        for b in ab:
            if tier == 'quick' and (a, b) not in (((0, 1), (0, 1)), ((-1, 2), (1, 1)), ((1, 1), (4, 1)), ((4, 1), (-1, 2)), ((-1, 2), (-1, 2)), ((0, 1), (4, 1)), ((1, 1), (1, 1))):
                continue
            out.append(('jacobi', a, b))
    out.append(('jacobi', (-1, 4), (-3, 4)))        # alpha + beta = -1
    out.append(('jacobi', (-1, 2), (1, 2)))         # alpha + beta = 0
    for f in ('legendre', 'cheby1', 'cheby2', 'cheby3', 'cheby4', 'hermite_He', 'hermite_H', 'qcon', 'power'):
        out.append((f, (0, 1), (0, 1)))
    for a in ((0, 1), (3, 2), (-1, 2)) + (((5, 1),) if tier == 'thorough' else ()):
        out.append(('laguerre', a, (0, 1)))
    for a in ((0, 1), (1, 1), (-3, 4)):
        out.append(('dickson1', a, (0, 1)))
        out.append(('dickson2', a, (0, 1)))
    for m in range(0, 7 if tier == 'quick' else 11):
        out.append(('zernike', (m, 1), (0, 1)))
    return sorted(set(out))


def cfg(cs, maxn, emit):
    c = 'INIT Init\nNEXT Next\nCHECK_DEADLOCK FALSE\nCONSTANTS\n MaxN = %d\n EmitOn = %s\n' % (maxn, 'TRUE' if emit else 'FALSE')
    c += 'INVARIANT Emit\n' if emit else ''.join('INVARIANT %s\n' % i for i in LAWS)
    d = dict(Cases='{%s}' % ', '.join('[fam |-> "%s", a |-> %s, b |-> %s]' % (f, rat(a), rat(b)) for f, a, b in cs),
             UnitPts=D.tup(UNIT), RadPts=D.tup(RAD), RealPts=D.tup(REAL), PosPts=D.tup(POS))
    return c, d


def run_spec(ctx, tier, maxn, laws=True, name='orthopoly'):
    """TLC over all (family, parameters, order) states: laws on 16 workers, then emission partitioned over families."""
    cs = cases(tier)
    if laws:
        c, d = cfg(cs, maxn, False)
        ctx.tlc('OrthoPoly', c, defs=d, name=name + '-laws', emit=False, coverage=False, timeout=3000)   # no coverage statistics: they triple the cost of ModQ arithmetic
    parts = [cs[i::8] for i in range(8)]
    thunks = [(lambda p=p, i=i: ctx.tlc("OrthoPoly", cfg(p, maxn, True)[0], defs=cfg(p, maxn, True)[1], name='%s:emit%d' % (name, i), coverage=False, count=not laws, timeout=3000)) for i, p in enumerate(parts) if p]
    recs = []
    for r in core.parallel(thunks):
        recs += r.records
    return recs


def decode(rec, guard=False):
    """exact Fractions of an emitted record"""
    return dict(fam=rec['fam'], a=Fraction(*rec['a']), b=Fraction(*rec['b']), n=rec['n'], pts=[Fraction(*p) for p in rec['pts']],
                vals=[modq.to_fraction(v, guard=guard) for v in rec['vals']], ders=[modq.to_fraction(v, guard=guard) for v in rec['ders']])


def order_cls(n):
    return 'n=%d' % n if n <= 2 else ('n=3..6' if n <= 6 else 'n>=7')

"""C12 -- Interferogram data, mask and coordinates stay coherent over any history.

Spec: Interferogram.tla (every public method an action, caches explicit, all histories explored by TLC; the pinned
variant must violate Coherent) + InterferogramTrace.tla.  Binding, both directions through one path: TLC generates
operation sequences (exhaustive to a depth, simulate walks) and a seeded random driver generates more; each is executed
on a real Interferogram while a recorder logs, after every public call, what a user can observe; the recorded executions
are then validated by TLC against the trace specification."""
import json
import math
import random
import warnings
from fractions import Fraction

from . import core, dftlib as D

PROP = 'C12'
RULES = ['edge', 'center', 'disc', 'corner']


def cfg(shapes, dx0s, scales, depth, bounded, pinned=False, emit=False, emit_len=0, laws=True, maxr=6, maxc=7, view=True, constraint=None):
    c = 'INIT Init\nNEXT Next\nCHECK_DEADLOCK FALSE\nCONSTANTS\n MaxR = %d\n MaxC = %d\n Pinned = %s\n Depth = %d\n Bounded = %s\n EmitOn = %s\n EmitLen = %d\n' % (
        maxr, maxc, 'TRUE' if pinned else 'FALSE', depth, 'TRUE' if bounded else 'FALSE', 'TRUE' if emit else 'FALSE', emit_len)
    if laws:
        c += 'INVARIANT TypeOK\nINVARIANT Coherent\nINVARIANT CropTight\nPROPERTY ValidityPreserved\nPROPERTY CropKeepsValid\n'
    if constraint:
        c += 'CONSTRAINT %s\n' % constraint
    if emit:
        c += 'INVARIANT Emit\n'
    elif view:
        c += 'VIEW View\n'
    d = dict(Shapes=D.tup(shapes), Dx0s=D.tup(dx0s), Scales=D.tup(scales), Rules='{%s}' % ', '.join('"%s"' % r for r in RULES))
    return c, d


def keep_mask(rule, shape, np):
    r, c = shape
    i = np.arange(1, r + 1)[:, None]
    j = np.arange(1, c + 1)[None, :]
    if rule == 'edge':
        return (i > 1) & (j < c)
    if rule == 'corner':
        return ~((i == r) & (j == 1))
    if rule == 'center':
        return ~((i == r // 2 + 1) & (j == c // 2 + 1))
    if rule == 'disc':
        y = i - 1 - r // 2
        x = j - 1 - c // 2
        rad = min(r, c) // 2
        return (y * y + x * x) <= rad * rad
    return np.ones((r, c), dtype=bool)


def make_data(shape, np, salt=0):
    r, c = shape
    y = np.arange(r)[:, None] - r // 2
    x = np.arange(c)[None, :] - c // 2
    z = 3.0 + 0.7 * x - 0.4 * y + 0.25 * (x * x + y * y) + 0.3 * np.sin(1.3 * x + 0.7 * y + salt) + 0.11 * ((3 * x + 5 * y + salt) % 7)
    z = z.astype(float)
    z[0, c - 1] += 40.0        # one spike, so that spike_clip has something to do on large enough maps
    return z


def invalid_of(a, np):
    ii, jj = np.nonzero(np.isnan(a))
    return [[int(i) + 1, int(j) + 1] for i, j in zip(ii, jj)]


def frac(x):
    f = Fraction(float(x)).limit_denominator(1 << 20)
    return [f.numerator, f.denominator]


def describe_xy(obj, np):
    """Descriptor of the Cartesian grid a user gets from .x/.y: shape, spacing, index of the zero coordinate."""
    x, y = np.asarray(obj.x), np.asarray(obj.y)
    if x.shape != y.shape or x.ndim != 2:
        return {'k': 'bad', 'why': 'x%s y%s' % (x.shape, y.shape)}
    r, c = x.shape
    sp = None
    if c > 1:
        sp = float(x[0, 1] - x[0, 0])
    elif r > 1:
        sp = float(y[1, 0] - y[0, 0])
    else:
        sp = float(obj.dx)
    if sp == 0:
        return {'k': 'bad', 'why': 'zero spacing'}
    ox = -float(x[0, 0]) / sp
    oy = -float(y[0, 0]) / sp
    if abs(ox - round(ox)) > 1e-9 or abs(oy - round(oy)) > 1e-9:
        return {'k': 'bad', 'why': 'origin not on a sample'}
    jj = (np.arange(c) - round(ox)) * sp
    ii = (np.arange(r) - round(oy)) * sp
    if not (np.allclose(x, jj[None, :] * np.ones((r, 1)), rtol=1e-12, atol=1e-12 * abs(sp)) and
            np.allclose(y, ii[:, None] * np.ones((1, c)), rtol=1e-12, atol=1e-12 * abs(sp))):
        return {'k': 'bad', 'why': 'not a regular grid'}
    return {'k': 'some', 'shape': [r, c], 'dx': frac(sp), 'org': [int(round(oy)), int(round(ox))]}


def nanstats_ok(obj, np):
    d = obj.data
    v = d[np.isfinite(d)]
    if v.size == 0:
        return True
    mean = v.mean()
    want = dict(pv=v.max() - v.min(), rms=math.sqrt((v ** 2).mean()), std=v.std(), Sa=np.abs(v - mean).sum() / v.size)
    tol = 1e-9 * (abs(v).max() + 1)
    got = dict(pv=obj.pv, rms=obj.rms, std=obj.std, Sa=obj.Sa)
    for k in want:
        if not abs(float(got[k]) - float(want[k])) <= tol:
            return False
    if abs(got['rms'] ** 2 - (got['std'] ** 2 + mean ** 2)) > 1e-9 * (got['rms'] ** 2 + 1):
        return False
    return got['Sa'] <= got['std'] + tol and got['std'] <= got['pv'] + tol


def run_program(init, ops, np, salt=0):
    """Execute ops on a real Interferogram; returns the recorded trace {init, events}."""
    from prysm.interferogram import Interferogram, fit_plane, fit_sphere
    shape = tuple(init['shape'])
    data = make_data(shape, np, salt)
    for i, j in init['invalid']:
        data[i - 1, j - 1] = np.nan
    obj = Interferogram(data, dx=init['dx'][0] / init['dx'][1])
    events = []
    for op in ops:
        name = op['op']
        ev = dict(op)
        ok = True
        ev['xy'] = {'k': 'none'}
        ev['rtok'] = True
        try:
            with warnings.catch_warnings():
                warnings.simplefilter('ignore')
                if name == 'read_xy':
                    ev['xy'] = describe_xy(obj, np)
                    ok = obj.x.shape == obj.data.shape
                elif name == 'read_rt':
                    # r and t are cached separately by the implementation: the order of the two reads must not matter.
                    # A copy of the object (same caches) is read t-first, the object itself r-first.
                    import copy
                    twin = copy.deepcopy(obj)
                    t2, r2 = np.asarray(twin.t), np.asarray(twin.r)
                    x2, y2 = np.asarray(twin.x), np.asarray(twin.y)
                    r, t = np.asarray(obj.r), np.asarray(obj.t)
                    ev['xy'] = describe_xy(obj, np)
                    x, y = np.asarray(obj.x), np.asarray(obj.y)
                    ev['rtok'] = bool(r.shape == x.shape and t.shape == x.shape and np.allclose(r, np.hypot(x, y), rtol=1e-12, atol=1e-12)
                                      and np.allclose(t, np.arctan2(y, x), rtol=1e-12, atol=1e-12)
                                      and r2.shape == x2.shape and t2.shape == x2.shape and np.allclose(r2, np.hypot(x2, y2), rtol=1e-12, atol=1e-12)
                                      and np.allclose(t2, np.arctan2(y2, x2), rtol=1e-12, atol=1e-12))
                    ok = r.shape == obj.data.shape
                elif name == 'crop':
                    before = np.count_nonzero(np.isfinite(obj.data))
                    obj.crop()
                    ok = np.count_nonzero(np.isfinite(obj.data)) == before
                elif name == 'pad':
                    obj.pad(np.nan if op['nan'] else 0.0, samples=(op['pr'], op['pc']))
                elif name == 'mask':
                    obj.mask(keep_mask(op['rule'], obj.data.shape, np))
                elif name == 'fill':
                    obj.fill(0.5)
                elif name == 'spike_clip':
                    obj.spike_clip(3)
                elif name == 'remove_piston':
                    obj.remove_piston()
                    v = obj.data[np.isfinite(obj.data)]
                    ok = v.size == 0 or abs(v.mean()) <= 1e-9 * (abs(v).max() + 1)
                elif name == 'remove_tiptilt':
                    obj.remove_tiptilt()
                    d = obj.data
                    v = np.isfinite(d)
                    # asserted only when x and y are independent on the valid samples (exact rank test on the sample indices)
                    ii, jj = np.nonzero(v)
                    org = describe_xy(obj, np).get('org', [0, 0])
                    if v.sum() >= 2 and np.linalg.matrix_rank(np.stack([jj - org[1], ii - org[0]]).astype(float)) == 2:
                        again = fit_plane(np.asarray(obj.x), np.asarray(obj.y), d)
                        ok = bool(np.nanmax(np.abs(again)) <= 1e-7 * (np.nanmax(np.abs(d)) + 1))
                elif name == 'remove_power':
                    obj.remove_power()
                    d = obj.data
                    v = np.isfinite(d)
                    # asserted only when power and piston are distinguishable on the valid samples: rho^2 takes two values
                    ii, jj = np.nonzero(v)
                    r_, c_ = d.shape
                    u2 = {(0 if c_ == 1 else (2 * j - (c_ - 1)) ** 2 * (r_ - 1 if r_ > 1 else 1) ** 2) +
                          (0 if r_ == 1 else (2 * i - (r_ - 1)) ** 2 * (c_ - 1 if c_ > 1 else 1) ** 2) for i, j in zip(ii.tolist(), jj.tolist())}
                    if len(u2) >= 2:
                        _, sph = fit_sphere(d)
                        ok = bool(core.maxabs(sph) <= 1e-7 * (np.nanmax(np.abs(d)) + 1)) if sph.size else True
                elif name == 'stats':
                    ok = nanstats_ok(obj, np)
                elif name == 'recenter':
                    obj.recenter()
                elif name == 'latcal':
                    obj.latcal(op['s'][0] / op['s'][1])
                elif name == 'strip_latcal':
                    obj.strip_latcal()
                elif name == 'filter':
                    obj.filter(0.25 / float(obj.dx), 'lowpass')
                else:
                    raise core.Machinery('unknown op ' + name)
        except core.Machinery:
            raise
        except Exception as ex:
            ok = False
            ev['raised'] = '%s: %s' % (type(ex).__name__, ex)
        ev['ok'] = bool(ok)
        ev['shape'] = list(obj.data.shape)
        ev['dx'] = frac(obj.dx)
        ev['invalid'] = invalid_of(obj.data, np)
        events.append(ev)
        if 'raised' in ev:
            break
    return {'init': init, 'events': events}


def random_program(rnd, np):
    shape = rnd.choice([(3, 3), (4, 4), (3, 5), (5, 4), (4, 5)])
    rule = rnd.choice(RULES + ['none', 'none'])
    keep = keep_mask(rule, shape, np)
    init = {'shape': list(shape), 'dx': rnd.choice([[1, 1], [1, 2], [2, 1]]), 'invalid': [[int(i) + 1, int(j) + 1] for i, j in zip(*np.nonzero(~keep))]}
    ops = []
    names = ['read_xy', 'read_rt', 'crop', 'pad', 'mask', 'fill', 'spike_clip', 'remove_piston', 'remove_tiptilt', 'remove_power',
             'stats', 'recenter', 'latcal', 'strip_latcal', 'filter', 'read_rt', 'read_xy']
    r, c = shape
    for _ in range(rnd.randint(4, 14)):
        n = rnd.choice(names)
        op = {'op': n, 'rule': '', 'pr': 0, 'pc': 0, 'nan': False, 's': [0, 1]}
        if n == 'pad':
            op.update(pr=rnd.randint(0, 2), pc=rnd.randint(0, 2), nan=rnd.random() < .5)
            if op['pr'] == 0 and op['pc'] == 0:
                op['pc'] = 1
        if n == 'mask':
            op['rule'] = rnd.choice(RULES)
        if n == 'latcal':
            op['s'] = rnd.choice([[1, 2], [2, 1], [1, 4]])
        ops.append(op)
    return init, ops


def admissible(init, ops, np, maxr, maxc):
    """Programs outside the specified domain (pads beyond the model's bound, filter on maps with NaN) are cut at that point."""
    return ops


def run(ctx, replay=None, selftest=False):
    import numpy as np
    for m in ('GridLib', 'Rat', 'Interferogram', 'InterferogramTrace'):
        core.sany(m)
    quick = ctx.tier == 'quick'
    shapes = [(3, 3), (3, 4)] if quick else [(3, 3), (3, 4), (4, 4), (4, 3)]
    tcfg = ('INIT TraceInit\nNEXT TraceNext\nCHECK_DEADLOCK FALSE\nCONSTANTS\n MaxR = 40\n MaxC = 40\n Pinned = FALSE\n Depth = 0\n Bounded = FALSE\n'
            ' EmitOn = FALSE\n EmitLen = 0\nINVARIANT Coherent\nINVARIANT TypeOK\nINVARIANT Accept\nINVARIANT Progress\n')
    tdefs = dict(Shapes='{}', Dx0s='{}', Scales='{}', Rules='{%s}' % ', '.join('"%s"' % r for r in RULES))
    if replay:
        blob = json.load(open(replay))['record']
        tr = run_program(blob['init'], [dict(e) for e in blob['ops']], np)
        rej = core.validate_traces(ctx, 'InterferogramTrace', [tr], tcfg, tdefs, 'replay')
        for idx, l in rej:
            ctx.fail('InterferogramTrace:rejected:replay', 'rejected at event %d: %s' % (l, tr['events'][l - 1] if 0 < l <= len(tr['events']) else None), blob)
        ctx.replayed(1)
        return
    # 1. every history of any length: finite state space without the history variable
    if quick:
        c, d = cfg([(3, 3)], [(1, 1)], [(2, 1)], 0, False, maxr=4, maxc=4)
    else:
        c, d = cfg([(3, 3), (3, 4)], [(1, 1), (1, 2)], [(1, 2), (2, 1)], 0, False, maxr=4, maxc=5)
    ctx.tlc('Interferogram', c, defs=d, name='all-histories', emit=False,
            require_actions=('ReadXY', 'ReadRT', 'Crop', 'Pad', 'Mask', 'Fill', 'SpikeClip', 'Recenter', 'Latcal', 'StripLatcal', 'Filter'))
    # 2. the pinned tree's missing invalidations must violate Coherent
    c, d = cfg(shapes[:1], [(1, 1)], [(2, 1)], 0, False, pinned=True, maxr=4, maxc=4)
    ctx.tlc('Interferogram', c, defs=d, name='pinned-variant', emit=False, must_hold=False, count=False)
    # 3. operation sequences: exhaustive to a depth, plus simulate walks
    depth = 2 if quick else 3
    c, d = cfg([(3, 3), (3, 4)] if quick else [(3, 3), (4, 5)], [(1, 2)], [(2, 1)], depth, True, emit=True, emit_len=depth, laws=False, maxr=5, maxc=6)
    r1 = ctx.tlc('Interferogram', c, defs=d, name='sequences-depth%d' % depth, coverage=False, count=False, workers=1)
    nsim, dsim = (300, 25) if quick else (3000, 40)
    c, d = cfg([(3, 3), (4, 4), (3, 5), (5, 4)], [(1, 1), (1, 2)], [(1, 2), (2, 1)], dsim, True, emit=True, emit_len=dsim, laws=False, maxr=9, maxc=9)
    r2 = ctx.tlc('Interferogram', c, defs=d, name='simulate', coverage=False, count=False,
                 simulate=dict(num=nsim, depth=dsim + 1, seed=ctx.seed + 7))
    # directed: read r / t, change something, read again, change something else, read again -- every pair of changes
    c, d = cfg([(3, 4)] if quick else [(3, 4), (4, 4)], [(1, 2)], [(2, 1)], 5, True, emit=True, emit_len=5, laws=False, maxr=5, maxc=6, constraint='Alternating')
    r3 = ctx.tlc('Interferogram', c, defs=d, name='sequences-read-change-read', coverage=False, count=False, workers=1, timeout=3000)
    if len(r3.records) < 100:
        raise core.Machinery('directed read/change/read exploration produced only %d histories' % len(r3.records))
    # keep every directed history whose two changes can move coordinates or the bounding box; thin the others out
    moving = {'crop', 'pad', 'recenter', 'latcal', 'strip_latcal', 'mask', 'fill'}
    directed, per_shape = [], {}
    for k, rec in enumerate(r3.records):
        if not ({rec['hist'][1]['op'], rec['hist'][3]['op']} <= moving or k % 25 == 0):
            continue
        # quick tier: at most two parameter variants of each (initial map, pair of changes)
        kk = json.dumps([rec['init']['shape'], sorted(map(tuple, rec['init']['invalid'])), rec['hist'][1]['op'], rec['hist'][3]['op']])
        per_shape[kk] = per_shape.get(kk, 0) + 1
        if quick and per_shape[kk] > 2:
            continue
        directed.append(rec)
    programs = []
    seen = set()
    for rec in r1.records + r2.records + directed:
        init = {'shape': list(rec['init']['shape']), 'dx': list(rec['init']['dx']), 'invalid': [list(p) for p in rec['init']['invalid']]}
        ops = [dict(o) for o in rec['hist']]
        # spike_clip is nondeterministic in the model; which samples it removes is decided by the data, so programs that
        # differ only in that choice are the same program
        key = json.dumps([init, [(o['op'], o['rule'], o['pr'], o['pc'], o['nan'], o['s']) for o in ops]])
        if key in seen:
            continue
        seen.add(key)
        programs.append((init, ops))
    rnd = random.Random(ctx.seed)
    for _ in range(200 if quick else 3000):
        programs.append(random_program(rnd, np))
    traces = []
    for k, (init, ops) in enumerate(programs):
        tr = run_program(init, ops, np, salt=k % 5)
        # cut at the first call outside the specified domain (filter on a map that contains NaN)
        cut = []
        inv_before = init['invalid']
        for op, ev in zip(ops, tr['events']):
            if op['op'] == 'filter' and inv_before:
                break
            cut.append(ev)
            inv_before = ev['invalid']
        tr['events'] = cut
        tr['ops'] = ops[:len(cut)]
        traces.append(tr)
    slim = [{'init': t['init'], 'events': [{k: v for k, v in e.items() if k != 'raised'} for e in t['events']]} for t in traces]
    rej = core.validate_traces(ctx, 'InterferogramTrace', slim, tcfg, tdefs, 'trace-validation')
    ctx.replayed(len(traces) - len(rej))
    for t in traces:
        ctx.distinct_keys.add(json.dumps(t['ops']))
    reported = {}
    for idx, l in rej:
        tr = traces[idx]
        ev = tr['events'][l - 1] if 0 < l <= len(tr['events']) else None
        prev = [e['op'] for e in tr['events'][:max(0, l - 1)]]
        if ev is None:
            sig = 'InterferogramTrace:rejected:init'
        elif not ev['ok']:
            sig = 'Interferogram:%s:promise-broken%s' % (ev['op'], ':raised' if 'raised' in ev else '')
        elif ev['op'] in ('read_rt', 'read_xy'):
            stale = next((p for p in reversed(prev) if p in ('latcal', 'strip_latcal', 'pad', 'crop', 'recenter')), 'none')
            sig = 'Interferogram:%s:incoherent-after:%s' % (ev['op'], stale)
        else:
            sig = 'Interferogram:%s:state-mismatch' % ev['op']
        ctx.fail(sig, 'event %d of %s: %s (init %s)' % (l, [e['op'] for e in tr['events']], {k: ev[k] for k in ev if k != 'invalid'} if ev else None, tr['init']),
                 {'init': tr['init'], 'ops': tr['ops']})
    if selftest:
        bad = json.loads(json.dumps(slim[:200]))
        n = 0
        for t in bad:
            for e in t['events']:
                if e['op'] == 'read_rt':
                    e['rtok'] = False
                    n += 1
                    break
        rej2 = core.validate_traces(ctx, 'InterferogramTrace', bad, tcfg, tdefs, 'selftest-corrupted')
        if n == 0 or len(rej2) < n:
            raise core.Machinery('selftest: %d corrupted traces, %d rejected' % (n, len(rej2)))
        ctx.notes.append('selftest: %d/%d corrupted interferogram traces rejected' % (len(rej2), n))
    ctx.sample({'init': traces[0]['init'], 'ops': [o['op'] for o in traces[0]['ops']], 'last_event': traces[0]['events'][-1] if traces[0]['events'] else None})
    ctx.sample({'init': traces[-1]['init'], 'ops': [o['op'] for o in traces[-1]['ops']]})
    ctx.bounds = {'shapes': shapes, 'depth': depth, 'simulate': [nsim, dsim], 'random_programs': 200 if quick else 3000}
    ctx.assumptions += ['filter is specified on NaN-free maps only; programs are cut before a filter call on a map containing NaN',
                        'spike_clip may invalidate any superset of the invalid samples (which ones is data dependent)',
                        'dx values are dyadic so that float spacings are exact rationals']

------------------------------ MODULE ModalSum ------------------------------
(* C10 -- fast modal sums equal explicit sums; least-squares fitting inverts synthesis.

   Mode "sum":   sum_of_2d_modes = tensor contraction of a (K, r, c) stack of modes with K weights.  Modes are small integer
                 arrays; law: the contraction over axis 0 equals the explicit sum  SUM_k w_k M_k  cell by cell, for every
                 weight pattern (dense, sparse, single term, all zero).
   Mode "pack":  Q2d_nm_c_to_a_b as a pure data-structure transformation: a list of ((n, m), c) terms becomes
                 (cm0, a, b): cm0[n] for the m = 0 terms, a[m][n] for m > 0 (cosine), b[m][n] for m < 0 (sine), every list dense
                 from n = 0 to the largest n present, absent entries zero, and for every m from 1 to the largest |m| present BOTH
                 a[m] and b[m] exist (possibly empty).  Law: reading the packed structure back yields exactly the non-zero
                 input terms -- whatever the azimuthal content (cosine only, sine only, m = 0 only, unequal lengths).
   Mode "lstsq": modes as small integer matrices over a set of sample positions, a set of invalid (non-finite) positions,
                 synthesising coefficients; FullRank = the Gram matrix of the modes over the VALID samples is non-singular
                 (exact integer determinant).  Law: the synthesising coefficients solve the normal equations over the valid
                 samples, and that system does not involve the invalid positions at all.                                *)
EXTENDS Integers, Sequences, FiniteSets, FiniteSetsExt, TLC, Json

CONSTANTS Mode, EmitOn,
          Shapes, Weights,          \* sum: shapes <<r, c>>, set of weight sequences
          TermLists,                \* pack: set of sequences of <<n, m, c>>
          FitCases                  \* lstsq: set of records [k |-> number of modes, p |-> number of samples, inv |-> set of invalid positions, c |-> coefficients]

VARIABLES cs, done
vars == <<cs, done>>

\* ---- sum
ModeVal(k, i, j) == ((k * 7 + i * 3 + j * 5) % 9) - 4                    \* mode k at cell (i, j): small integers, all modes different
Contract(w, sh) == [i \in 1..sh[1] |-> [j \in 1..sh[2] |-> MapThenSumSet(LAMBDA k : w[k] * ModeVal(k, i, j), 1..Len(w))]]
SumLaw == (Mode = "sum" /\ done) =>
   LET w == cs.w  sh == cs.shape
       \* explicit accumulation, one mode after the other
       Acc[k \in 0..Len(w)] == IF k = 0 THEN [i \in 1..sh[1] |-> [j \in 1..sh[2] |-> 0]]
                               ELSE [i \in 1..sh[1] |-> [j \in 1..sh[2] |-> Acc[k - 1][i][j] + w[k] * ModeVal(k, i, j)]] IN
   Contract(w, sh) = Acc[Len(w)]

\* ---- pack
Terms == cs.terms
AbsV(x) == IF x < 0 THEN 0 - x ELSE x
MaxOr(S, dflt) == IF S = {} THEN dflt ELSE CHOOSE x \in S : \A y \in S : x >= y
Idxs == 1..Len(Terms)
CoefOf(n, m) == LET hits == {i \in Idxs : Terms[i][1] = n /\ Terms[i][2] = m} IN
                IF hits = {} THEN 0 ELSE Terms[MaxOr(hits, 0)][3]                  \* a repeated (n, m) keeps the last coefficient
Dense(sel(_)) == LET top == MaxOr({Terms[i][1] : i \in {q \in Idxs : sel(Terms[q][2])}}, 0 - 1) IN top
Cm0 == [n1 \in 1..(Dense(LAMBDA m : m = 0) + 1) |-> CoefOf(n1 - 1, 0)]
MaxM == MaxOr({AbsV(Terms[i][2]) : i \in Idxs}, 0)
Am == [m \in 1..MaxM |-> [n1 \in 1..(Dense(LAMBDA mm : mm = m) + 1) |-> CoefOf(n1 - 1, m)]]
Bm == [m \in 1..MaxM |-> [n1 \in 1..(Dense(LAMBDA mm : mm = 0 - m) + 1) |-> CoefOf(n1 - 1, 0 - m)]]
Unpacked == {<<n1 - 1, 0, Cm0[n1]>> : n1 \in {q \in 1..Len(Cm0) : Cm0[q] # 0}}
            \cup UNION {{<<n1 - 1, m, Am[m][n1]>> : n1 \in {q \in 1..Len(Am[m]) : Am[m][q] # 0}} : m \in 1..MaxM}
            \cup UNION {{<<n1 - 1, 0 - m, Bm[m][n1]>> : n1 \in {q \in 1..Len(Bm[m]) : Bm[m][q] # 0}} : m \in 1..MaxM}
Effective == {<<Terms[i][1], Terms[i][2], CoefOf(Terms[i][1], Terms[i][2])>> : i \in {q \in Idxs : CoefOf(Terms[q][1], Terms[q][2]) # 0}}
PackLaw == (Mode = "pack" /\ done) =>
   /\ Unpacked = Effective
   /\ Len(Am) = MaxM /\ Len(Bm) = MaxM                                 \* both families present for every m up to the largest |m|

\* ---- lstsq
FitMode(k, p) == ((k * k * 3 + k * p + p * p) % 7) - 3 + (IF k = 1 THEN 1 ELSE 0)        \* mode k at sample p
Valid == (1..cs.p) \ cs.inv
Gram(a, b) == MapThenSumSet(LAMBDA p : FitMode(a, p) * FitMode(b, p), Valid)
Det(K) == CASE K = 1 -> Gram(1, 1)
            [] K = 2 -> Gram(1, 1) * Gram(2, 2) - Gram(1, 2) * Gram(2, 1)
            [] OTHER -> Gram(1, 1) * (Gram(2, 2) * Gram(3, 3) - Gram(2, 3) * Gram(3, 2))
                        - Gram(1, 2) * (Gram(2, 1) * Gram(3, 3) - Gram(2, 3) * Gram(3, 1))
                        + Gram(1, 3) * (Gram(2, 1) * Gram(3, 2) - Gram(2, 2) * Gram(3, 1))
FullRank == Det(cs.k) # 0
Data(p) == MapThenSumSet(LAMBDA k : cs.c[k] * FitMode(k, p), 1..cs.k)
LstsqLaw == (Mode = "lstsq" /\ done) =>
   \A a \in 1..cs.k : MapThenSumSet(LAMBDA b : Gram(a, b) * cs.c[b], 1..cs.k) = MapThenSumSet(LAMBDA p : FitMode(a, p) * Data(p), Valid)

Init == /\ done = FALSE
        /\ CASE Mode = "sum"  -> \E sh \in Shapes, w \in Weights : cs = [shape |-> sh, w |-> w]
             [] Mode = "pack" -> \E t \in TermLists : cs = [terms |-> t]
             [] OTHER         -> cs \in FitCases
Compute == done = FALSE /\ done' = TRUE /\ UNCHANGED cs
Next == Compute
Spec == Init /\ [][Next]_vars

Rec == CASE Mode = "sum"  -> [k |-> "sum", shape |-> cs.shape, w |-> cs.w,
                              modes |-> [k \in 1..Len(cs.w) |-> [i \in 1..cs.shape[1] |-> [j \in 1..cs.shape[2] |-> ModeVal(k, i, j)]]],
                              result |-> Contract(cs.w, cs.shape)]
         [] Mode = "pack" -> [k |-> "pack", terms |-> Terms, cm0 |-> Cm0, am |-> Am, bm |-> Bm]
         [] OTHER         -> [k |-> "lstsq", nk |-> cs.k, p |-> cs.p, inv |-> cs.inv, c |-> cs.c, fullrank |-> FullRank,
                              modes |-> [k \in 1..cs.k |-> [p \in 1..cs.p |-> FitMode(k, p)]],
                              data |-> [p \in 1..cs.p |-> Data(p)]]
Emit == (EmitOn /\ done) => PrintT(<<"EMIT", ToJson(Rec)>>)
=============================================================================

------------------------------- MODULE HexLib -------------------------------
(* Constant-level library for C18 (no variables):
     - exact arithmetic in Z[sqrt 3]: a number is <<a, b>> = a + b sqrt(3) with integers a, b; its sign is decided by
       comparing a^2 with 3 b^2 -- this is what makes hexagon edges, 30-degree sector boundaries and spider vanes exact;
     - hexagonal cube coordinates, the six directions, hex distance, the ring of cells at distance k in the walk order of
       prysm.segmented.hex_ring (closed form), segment ids;
     - the direction table of the multiples of 30 degrees.                                                            *)
EXTENDS Integers, Sequences, FiniteSets

Sgn(n) == IF n > 0 THEN 1 ELSE IF n < 0 THEN 0 - 1 ELSE 0
AbsI(n) == IF n < 0 THEN 0 - n ELSE n
Q3(a, b) == <<a, b>>
Q3Int(a) == <<a, 0>>
Q3Add(x, y) == <<x[1] + y[1], x[2] + y[2]>>
Q3Sub(x, y) == <<x[1] - y[1], x[2] - y[2]>>
Q3Neg(x) == <<0 - x[1], 0 - x[2]>>
Q3Mul(x, y) == <<x[1] * y[1] + 3 * x[2] * y[2], x[1] * y[2] + x[2] * y[1]>>
Q3Scale(k, x) == <<k * x[1], k * x[2]>>
Q3Sign(x) == LET a == x[1]  b == x[2] IN
             IF b = 0 THEN Sgn(a) ELSE IF a = 0 THEN Sgn(b) ELSE IF Sgn(a) = Sgn(b) THEN Sgn(a)
             ELSE Sgn(a) * Sgn(a * a - 3 * b * b)
Q3Abs(x) == IF Q3Sign(x) < 0 THEN Q3Neg(x) ELSE x
Q3Less(x, y) == Q3Sign(Q3Sub(y, x)) > 0
Q3Leq(x, y) == Q3Sign(Q3Sub(y, x)) >= 0
Sqrt3 == <<0, 1>>
\* vectors are pairs of Z[sqrt 3] numbers
VSub2(p, q) == <<Q3Sub(p[1], q[1]), Q3Sub(p[2], q[2])>>
Cross2(p, q) == Q3Sub(Q3Mul(p[1], q[2]), Q3Mul(p[2], q[1]))
Dot2(p, q) == Q3Add(Q3Mul(p[1], q[1]), Q3Mul(p[2], q[2]))
\* floor(x / d) for x in Z[sqrt 3], integer d > 0, |result| <= bound
Q3FloorDiv(x, d, bound) == CHOOSE m \in (0 - bound)..bound : Q3Sign(Q3Sub(x, Q3Int(m * d))) >= 0 /\ Q3Sign(Q3Sub(x, Q3Int((m + 1) * d))) < 0
Q3CeilDiv(x, d, bound) == 0 - Q3FloorDiv(Q3Neg(x), d, bound)

\* <<2 cos, 2 sin>> of k * 30 degrees
TwoCos30 == <<Q3(2, 0), Q3(0, 1), Q3(1, 0), Q3(0, 0), Q3(0 - 1, 0), Q3(0, 0 - 1), Q3(0 - 2, 0), Q3(0, 0 - 1), Q3(0 - 1, 0), Q3(0, 0), Q3(1, 0), Q3(0, 1)>>
Mod12(k) == ((k % 12) + 12) % 12
Dir30(k) == <<TwoCos30[Mod12(k) + 1], TwoCos30[Mod12(k - 3) + 1]>>          \* sin(a) = cos(a - 90)

\* ---- hexagonal cube coordinates
HexDirs == <<<<1, 0, 0 - 1>>, <<1, 0 - 1, 0>>, <<0, 0 - 1, 1>>, <<0 - 1, 0, 1>>, <<0 - 1, 1, 0>>, <<0, 1, 0 - 1>>>>
HexAdd(a, b) == <<a[1] + b[1], a[2] + b[2], a[3] + b[3]>>
HexScale(a, k) == <<a[1] * k, a[2] * k, a[3] * k>>
HexDir(i) == HexDirs[(i % 6) + 1]
HexNeighbor(h, i) == HexAdd(h, HexDir(i))
MaxI(a, b) == IF a > b THEN a ELSE b
HexDist(a, b) == MaxI(MaxI(AbsI(a[1] - b[1]), AbsI(a[2] - b[2])), AbsI(a[3] - b[3]))
HexOrigin == <<0, 0, 0>>
RECURSIVE Corner(_, _)
Corner(k, i) == IF i = 0 THEN <<0 - k, k, 0>> ELSE HexAdd(Corner(k, i - 1), HexScale(HexDir(i - 1), k))
\* the walk before its final rotation: side i, step j
Unrotated(k) == [p \in 1..(6 * k) |-> HexAdd(Corner(k, (p - 1) \div k), HexScale(HexDir((p - 1) \div k), (p - 1) % k))]
\* hex_ring(k): the walk, rotated left by k so that it starts one side later
RingClosed(k) == [p \in 1..(6 * k) |-> Unrotated(k)[((p - 1 + k) % (6 * k)) + 1]]
FirstId(i) == 3 * i * (i - 1) + 1            \* ring i carries the ids FirstId(i) .. FirstId(i) + 6 i - 1 ; the centre is 0
NumCells(rings) == 1 + 3 * rings * (rings + 1)
\* all cells of an aperture of `rings` rings, in id order (index = id + 1)
RECURSIVE AllCells(_)
AllCells(rings) == IF rings = 0 THEN <<HexOrigin>> ELSE AllCells(rings - 1) \o RingClosed(rings)
=============================================================================

------------------------------ MODULE RayTrace ------------------------------
(* C19 -- ray tracing obeys Snell's law and keeps rays on surfaces.

   Per surface the pipeline  ToLocal -> Intersect -> Bend (reflect | refract) -> ToGlobal  on a state (P, S) of exact
   rational 3-vectors.  Exact on a rational family, constructed backwards from the answer:
     surface   plane, sphere (k = 0) or paraboloid (k = -1) with rational curvature c, sag c rho^2 / (1 + phi),
               phi^2 = 1 - (1 + k) c^2 rho^2  given as a rational in the menu (checked);
     hit       a rational point Q of the surface (the vertex included) with its rational UNIT normal nrm (checked parallel
               to the gradient (-sag_x, -sag_y, 1)) and a rational unit tangent tau;
     ray       S = cosI nrm + sinI tau with a Pythagorean angle of incidence, started at P0 = Q - len S;
     bend      reflect: S' = S - 2 (S.nrm) nrm;  refract: S' = cosI' nrm + sinI' tau with sinI' = mu sinI, both Pythagorean;
     frame     local = Rot (global - Pos),  global = Rot^T local + Pos  with a rational rotation matrix.
   TLC checks: the hit is on the surface; S, S', nrm are unit; the reflected ray mirrors S about the true normal; the vector
   form of Snell's law  n (S x nrm) = n' (S' x nrm);  the frame transformation is a rigid motion and its own inverse.
   A second surface (a plane mirror placed where the bent ray arrives at a chosen distance) extends the trace to a
   two-surface prescription; a three-surface prescription (the surface, an evaluation plane INSIDE the medium, a plane back
   into the ambient medium) carries the running refractive index: only refracting surfaces change it (NAfter, GlassLaw).
   Off-axis sections (Shifts) describe the same parent surface in coordinates whose origin is the parent's point (dx, dy).  Variant "grad-normal" uses the un-normalised gradient as the normal in the refraction formula
   (the pinned tree) and must violate SnellLaw off axis.                                                              *)
EXTENDS Integers, Sequences, FiniteSets, TLC, Json, Rat

CONSTANTS Hits,      \* set of records [kind, c, k, q (point, 3 Rats), phi, nrm, tau]
          Incid,     \* set of <<cosI, sinI>>
          Bends,     \* set of records [typ |-> "reflect"] or [typ |-> "refract", mu, ci2, si2] valid for a given sinI (filtered)
          Frames,    \* set of records [rot (3x3 of Rats), pos (3 Rats)]
          Lens,      \* distances from the start point to the hit
          Shifts,    \* off-axis sections: <<dx, dy>>, the section's local origin in the parent's coordinates (one of them zero)
          Variant, EmitOn

VARIABLES hit, inc, bend, frame, len, shift, done
vars == <<hit, inc, bend, frame, len, shift, done>>

Z == <<0, 1>>
One == <<1, 1>>
VAdd(a, b) == <<RAdd(a[1], b[1]), RAdd(a[2], b[2]), RAdd(a[3], b[3])>>
VSub(a, b) == <<RSub(a[1], b[1]), RSub(a[2], b[2]), RSub(a[3], b[3])>>
VScale(s, a) == <<RMul(s, a[1]), RMul(s, a[2]), RMul(s, a[3])>>
Dot(a, b) == RAdd(RAdd(RMul(a[1], b[1]), RMul(a[2], b[2])), RMul(a[3], b[3]))
Cross(a, b) == <<RSub(RMul(a[2], b[3]), RMul(a[3], b[2])), RSub(RMul(a[3], b[1]), RMul(a[1], b[3])), RSub(RMul(a[1], b[2]), RMul(a[2], b[1]))>>
MatVec(m, v) == <<Dot(m[1], v), Dot(m[2], v), Dot(m[3], v)>>
Transpose(m) == <<<<m[1][1], m[2][1], m[3][1]>>, <<m[1][2], m[2][2], m[3][2]>>, <<m[1][3], m[2][3], m[3][3]>>>>
Zero3 == <<Z, Z, Z>>

\* ---- the surface
Rho2(q) == RAdd(RMul(q[1], q[1]), RMul(q[2], q[2]))
Sag(h) == IF h.kind = "plane" THEN Z ELSE RDiv(RMul(h.c, Rho2(h.q)), RAdd(One, h.phi))
\* gradient of F = z - sag(x, y):  (-c x / phi, -c y / phi, 1)
Grad(h) == IF h.kind = "plane" THEN <<Z, Z, One>>
           ELSE <<RNeg(RDiv(RMul(h.c, h.q[1]), h.phi)), RNeg(RDiv(RMul(h.c, h.q[2]), h.phi)), One>>

\* ---- off-axis sections: the SAME parent surface described in coordinates whose origin is the parent's point (dx, dy):
\* sag_off(x, y) = sag_parent(x + dx, y + dy); the hit point in those coordinates is QLoc, its normal is the parent's normal at q
QLoc == <<RSub(hit.q[1], shift[1]), RSub(hit.q[2], shift[2]), hit.q[3]>>
SagOff(p) == IF hit.kind = "plane" THEN Z
             ELSE RDiv(RMul(hit.c, RAdd(RMul(RAdd(p[1], shift[1]), RAdd(p[1], shift[1])), RMul(RAdd(p[2], shift[2]), RAdd(p[2], shift[2])))), RAdd(One, hit.phi))
LocalOrigin == shift # <<Z, Z>> /\ QLoc[1] = Z /\ QLoc[2] = Z

\* ---- the ray, in the surface's local frame
SIn == VAdd(VScale(inc[1], hit.nrm), VScale(inc[2], hit.tau))
P0 == VSub(QLoc, VScale(len, SIn))
\* normal as used by the bend: the unit normal (design) or the raw gradient (pinned, refraction only)
NrmFor(b) == IF Variant = "grad-normal" /\ b.typ = "refract" THEN Grad(hit) ELSE hit.nrm
SOut == IF bend.typ = "reflect" THEN VSub(SIn, VScale(RMul(<<2, 1>>, Dot(SIn, hit.nrm)), hit.nrm))
        ELSE LET r == NrmFor(bend)  cosI == Dot(r, SIn) IN
             \* Spencer & Murty: S' = sqrt(1 - mu^2 (1 - cosI^2)) r + mu (S - cosI r); the square root is cosI' of the menu
             \* (a ray that meets the surface from the +z side, cosI < 0, keeps going to the -z side: the root takes the sign of cosI)
             VAdd(VScale(IF RLess(cosI, Z) THEN RNeg(bend.ci2) ELSE bend.ci2, r), VScale(bend.mu, VSub(SIn, VScale(cosI, r))))

\* ---- the frame
ToGlobalP(v) == VAdd(MatVec(Transpose(frame.rot), v), frame.pos)
ToGlobalS(v) == MatVec(Transpose(frame.rot), v)
ToLocalP(v) == MatVec(frame.rot, VSub(v, frame.pos))
ToLocalS(v) == MatVec(frame.rot, v)

ValidBend(b, i) == b.typ = "reflect" \/ (RMul(b.mu, i[2]) = b.si2 /\ RAdd(RMul(b.ci2, b.ci2), RMul(b.si2, b.si2)) = One)
Init == /\ hit \in Hits /\ inc \in Incid /\ frame \in Frames /\ len \in Lens /\ done = FALSE
        /\ bend \in {b \in Bends : ValidBend(b, inc)}
        /\ shift \in {sh \in Shifts : (hit.kind = "plane" => sh = <<Z, Z>>) /\ (sh[1] = Z \/ sh[2] = Z)}
Compute == done = FALSE /\ done' = TRUE /\ UNCHANGED <<hit, inc, bend, frame, len, shift>>
Next == Compute
Spec == Init /\ [][Next]_vars

---------------------------------------------------------------------------
MenuSound == /\ (hit.kind # "plane") => RMul(hit.phi, hit.phi) = RSub(One, RMul(RMul(RAdd(One, hit.k), RMul(hit.c, hit.c)), Rho2(hit.q)))
             /\ Dot(hit.nrm, hit.nrm) = One /\ Dot(hit.tau, hit.tau) = One /\ Dot(hit.nrm, hit.tau) = Z
             /\ Cross(hit.nrm, Grad(hit)) = Zero3 /\ RLess(Z, Dot(hit.nrm, Grad(hit)))         \* the true surface normal, towards +z
             /\ RAdd(RMul(inc[1], inc[1]), RMul(inc[2], inc[2])) = One
OnSurface == hit.q[3] = Sag(hit) /\ SagOff(QLoc) = QLoc[3] /\ VAdd(P0, VScale(len, SIn)) = QLoc
UnitLaw == Dot(SIn, SIn) = One /\ (Variant = "design" => Dot(SOut, SOut) = One)
ReflectLaw == bend.typ = "reflect" =>
   /\ Dot(SOut, hit.nrm) = RNeg(Dot(SIn, hit.nrm))                                   \* mirrored about the normal ...
   /\ VSub(SOut, VScale(Dot(SOut, hit.nrm), hit.nrm)) = VSub(SIn, VScale(Dot(SIn, hit.nrm), hit.nrm))   \* ... tangential part kept
SnellLaw == bend.typ = "refract" =>
   /\ Cross(SIn, hit.nrm) = VScale(RInv(bend.mu), Cross(SOut, hit.nrm))              \* n (S x nrm) = n' (S' x nrm), mu = n / n'
   /\ Dot(SOut, hit.nrm) = (IF RLess(inc[1], Z) THEN RNeg(bend.ci2) ELSE bend.ci2)    \* cos of the angle of refraction, same side as the incident ray
   /\ Dot(Cross(SIn, hit.nrm), SOut) = Z                                             \* plane of incidence
RigidFrame == /\ MatVec(frame.rot, MatVec(Transpose(frame.rot), hit.q)) = hit.q      \* Rot Rot^T = I (on a vector)
              /\ ToLocalP(ToGlobalP(P0)) = P0 /\ ToLocalS(ToGlobalS(SIn)) = SIn
              /\ Dot(ToGlobalS(SIn), ToGlobalS(SOut)) = Dot(SIn, SOut)
              /\ Dot(ToGlobalS(SIn), ToGlobalS(SIn)) = One

\* second surface: a plane mirror normal to the global z axis, placed where the bent ray is after travelling `len` again
P1g == ToGlobalP(QLoc)
S1g == ToGlobalS(SOut)
P2g == VAdd(P1g, VScale(len, S1g))
S2g == <<S1g[1], S1g[2], RNeg(S1g[3])>>
TwoSurface == /\ P2g[3] = RAdd(P1g[3], RMul(len, S1g[3]))
              /\ Dot(S2g, S2g) = Dot(S1g, S1g)

\* a prescription carries the index of the medium the ray is in: a refracting surface replaces it by its own index, a mirror or
\* an evaluation plane leaves it alone.  Indices relative to the ambient medium (= 1); the first surface's glass is 1 / mu.
NAfter(typ, nprev, nsurf) == IF typ = "refract" THEN nsurf ELSE nprev
N1 == NAfter(bend.typ, One, RInv(bend.mu))
N2 == NAfter("eval", N1, Z)                                  \* an evaluation plane inside the medium (has no index of its own)
\* third surface: a plane normal to the global z axis one unit further on, refracting back into the ambient medium
Mu3 == RDiv(N2, One)
N3 == NAfter("refract", N2, One)
P3g == VAdd(P2g, VScale(RInv(S1g[3]), S1g))
ExitTan == <<RMul(Mu3, S1g[1]), RMul(Mu3, S1g[2])>>          \* n (S x z) is conserved: the tangential part scales by n / n'
ExitOk == RLess(Z, S1g[3]) /\ RLess(RAdd(RMul(ExitTan[1], ExitTan[1]), RMul(ExitTan[2], ExitTan[2])), One)
IdentityRot == <<<<One, Z, Z>>, <<Z, One, Z>>, <<Z, Z, One>>>>
GlassLaw == /\ N2 = N1 /\ N3 = One
            /\ (bend.typ = "reflect") => (N1 = One /\ Mu3 = One)
            /\ (bend.typ = "refract") => RMul(Mu3, bend.mu) = One
            \* a plane-parallel plate restores the direction of the ray
            /\ (hit.kind = "plane" /\ frame.rot = IdentityRot /\ bend.typ = "refract" /\ RLess(Z, S1g[3])) => ExitTan = <<ToGlobalS(SIn)[1], ToGlobalS(SIn)[2]>>

Rec == [hit |-> hit, inc |-> inc, bend |-> bend, frame |-> frame, len |-> len, shift |-> shift, localorigin |-> LocalOrigin,
        p3 |-> IF RLess(Z, S1g[3]) THEN P3g ELSE Zero3, exittan |-> ExitTan, exitok |-> ExitOk,
        p0 |-> ToGlobalP(P0), s0 |-> ToGlobalS(SIn), p1 |-> P1g, s1 |-> S1g, p2 |-> P2g, s2 |-> S2g, mirrorz |-> P2g[3],
        p0local |-> P0, s0local |-> SIn, s1local |-> SOut, forward |-> RLess(Z, S1g[3])]
Emit == (EmitOn /\ done) => PrintT(<<"EMIT", ToJson(Rec)>>)
=============================================================================

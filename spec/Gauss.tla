-------------------------------- MODULE Gauss --------------------------------
(* Exact arithmetic in Q(i): a number is a pair <<re, im>> of ModQ rationals (equality only), plus small dense matrices.
   TLCEval forces each matrix to an explicit value once (otherwise every entry is recomputed at every later use).      *)
EXTENDS Integers, Sequences, TLC, Rat, ModQ

\* ---- Q(i)
G(re, im) == <<re, im>>
GQ(r) == G(MRat(r[1], r[2]), MZero)
GZero == G(MZero, MZero)
GOne == G(MOne, MZero)
GI == G(MZero, MOne)
GAdd(a, b) == G(MAdd(a[1], b[1]), MAdd(a[2], b[2]))
GSub(a, b) == G(MSub(a[1], b[1]), MSub(a[2], b[2]))
GNeg(a) == G(MNeg(a[1]), MNeg(a[2]))
GMul(a, b) == G(MSub(MMul(a[1], b[1]), MMul(a[2], b[2])), MAdd(MMul(a[1], b[2]), MMul(a[2], b[1])))
GConj(a) == G(a[1], MNeg(a[2]))
GHalf(a) == G(MMul(a[1], MRat(1, 2)), MMul(a[2], MRat(1, 2)))
\* ---- matrices: functions [1..n -> [1..n -> Q(i)]]
\* TLCEval forces the product to an explicit value once (otherwise every entry is recomputed at every later use)
MatMul(A, B, n) == TLCEval([i \in 1..n |-> [j \in 1..n |->
     IF n = 2 THEN GAdd(GMul(A[i][1], B[1][j]), GMul(A[i][2], B[2][j]))
     ELSE GAdd(GAdd(GMul(A[i][1], B[1][j]), GMul(A[i][2], B[2][j])), GAdd(GMul(A[i][3], B[3][j]), GMul(A[i][4], B[4][j])))]])
Herm(A, n) == TLCEval([i \in 1..n |-> [j \in 1..n |-> GConj(A[j][i])]])
Transp(A, n) == TLCEval([i \in 1..n |-> [j \in 1..n |-> A[j][i]]])
Ident(n) == [i \in 1..n |-> [j \in 1..n |-> IF i = j THEN GOne ELSE GZero]]
Mat2(a, b, c, d) == TLCEval(<<<<a, b>>, <<c, d>>>>)
MScal(g, A, n) == TLCEval([i \in 1..n |-> [j \in 1..n |-> GMul(g, A[i][j])]])
MAddM(A, B, n) == TLCEval([i \in 1..n |-> [j \in 1..n |-> GAdd(A[i][j], B[i][j])]])

GDiv(a, b) == LET d == MAdd(MMul(b[1], b[1]), MMul(b[2], b[2]))  n == GMul(a, GConj(b)) IN G(MDiv(n[1], d), MDiv(n[2], d))
GAbs2(a) == MAdd(MMul(a[1], a[1]), MMul(a[2], a[2]))                  \* |a|^2, a ModQ rational
GR(r) == GQ(r)
=============================================================================

----------------------------- MODULE Executors -----------------------------
(* C01 (history part) -- the shared transform executors as a state machine.

   prysm.fttools.mdft caches its basis matrices, prysm.fttools.czt caches its chirp vectors, and
   prysm.conf.config.precision decides the dtype the matrix-DFT bases are built in.  The property:
   the answer of a call depends on its arguments and the configured precision only -- not on earlier
   calls, earlier precisions, or clear()s.

   The caches are HIDDEN state (never observed directly); what a caller can observe of a result is the
   accuracy class of the returned numbers: "64" (agrees with the exact kernel to double precision), "32"
   (to single precision only).  A basis built under precision 32 and re-used after precision was set to 64
   shows up as class "32" where "64" is required.

   KeyHasPrecision = TRUE is the specified design (cache key = everything the basis depends on);
   KeyHasPrecision = FALSE is the pinned tree's key and must violate HistoryFree (vacuity guard).        *)
EXTENDS Integers, Sequences, FiniteSets, TLC, Json

CONSTANTS Keys,             \* abstract argument tuples (shape, Q, samples_out, shift); concretised by the driver
          Depth,            \* bound on the exported history (hist is an observation variable)
          Bounded,          \* TRUE: stop after Depth actions; FALSE: explore every history, hist frozen at Depth
          KeyHasPrecision,
          EmitOn, EmitLen   \* emit states whose history has exactly EmitLen entries (0 = every state)

VARIABLES precision,  \* 32 | 64
          cacheM,     \* set of [key, dirn, prec] : matrix-DFT bases present, tagged with the precision they were built in
          cacheZ,     \* set of [key] : chirp-Z components present (built in the dtype of the input: precision-free)
          last,       \* what the last call returned: [call, key, cls]
          hist        \* sequence of actions (observation only)
vars == <<precision, cacheM, cacheZ, last, hist>>

Precs == {32, 64}
NoCall == [call |-> "none", key |-> "none", cls |-> 0]

Init == /\ precision = 64          \* prysm's default
        /\ cacheM = {} /\ cacheZ = {} /\ last = NoCall /\ hist = << >>

Log(a) == hist' = IF Len(hist) < Depth THEN Append(hist, a) ELSE hist
Room == Bounded => Len(hist) < Depth

SetPrecision(p) == /\ Room /\ precision' = p /\ last' = NoCall
                   /\ UNCHANGED <<cacheM, cacheZ>> /\ Log([a |-> "prec", k |-> "", p |-> p])

\* the cache entry a matrix-DFT call with key k, direction d will use
Hit(k, d)  == {e \in cacheM : e.key = k /\ e.dirn = d /\ (KeyHasPrecision => e.prec = precision)}
Entry(k, d) == IF Hit(k, d) # {} THEN CHOOSE e \in Hit(k, d) : TRUE
               ELSE [key |-> k, dirn |-> d, prec |-> precision]

MdftCall(name, k, d) ==
  /\ Room
  /\ cacheM' = cacheM \cup {Entry(k, d)}
  /\ last' = [call |-> name, key |-> k, cls |-> Entry(k, d).prec]
  /\ UNCHANGED <<precision, cacheZ>> /\ Log([a |-> name, k |-> k, p |-> 0])

Dft2(k)          == MdftCall("dft2", k, "fwd")
Idft2(k)         == MdftCall("idft2", k, "inv")
Dft2Backprop(k)  == MdftCall("dft2_backprop", k, "fwd")     \* same basis as the forward call it differentiates
Idft2Backprop(k) == MdftCall("idft2_backprop", k, "inv")

CztCall(name, k) ==
  /\ Room
  /\ cacheZ' = cacheZ \cup {[key |-> k]}
  /\ last' = [call |-> name, key |-> k, cls |-> 64]         \* built in the (double) dtype of the input
  /\ UNCHANGED <<precision, cacheM>> /\ Log([a |-> name, k |-> k, p |-> 0])
Czt2(k)  == CztCall("czt2", k)
Iczt2(k) == CztCall("iczt2", k)          \* the inverse is the conjugated forward transform: same components

ClearM == /\ Room /\ cacheM' = {} /\ last' = NoCall /\ UNCHANGED <<precision, cacheZ>> /\ Log([a |-> "clear_mdft", k |-> "", p |-> 0])
ClearZ == /\ Room /\ cacheZ' = {} /\ last' = NoCall /\ UNCHANGED <<precision, cacheM>> /\ Log([a |-> "clear_czt", k |-> "", p |-> 0])

Next == \/ \E p \in Precs : SetPrecision(p)
        \/ \E k \in Keys : Dft2(k) \/ Idft2(k) \/ Dft2Backprop(k) \/ Idft2Backprop(k) \/ Czt2(k) \/ Iczt2(k)
        \/ ClearM \/ ClearZ
Spec == Init /\ [][Next]_vars

---------------------------------------------------------------------------
\* the answer has the accuracy of the CONFIGURED precision (or better), whatever happened before
HistoryFree == last.call # "none" => last.cls >= precision
\* observable through nbytes(): the cache is empty exactly after clear() / at start
TypeOK == /\ precision \in Precs
          /\ \A e \in cacheM : e.key \in Keys /\ e.prec \in Precs
\* clear() really forgets: after ClearM nothing is cached (action property)
ClearForgets == [][(cacheM' = {} /\ cacheM # {}) => last' = NoCall]_vars

---------------------------------------------------------------------------
View == <<precision, cacheM, cacheZ, last>>      \* hist is observation only: the machine itself is finite
Rec == [hist |-> hist, precision |-> precision, last |-> last, nM |-> Cardinality(cacheM), nZ |-> Cardinality(cacheZ)]
Emit == (EmitOn /\ (EmitLen = 0 \/ Len(hist) = EmitLen)) => PrintT(<<"EMIT", ToJson(Rec)>>)
=============================================================================

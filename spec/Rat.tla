-------------------------------- MODULE Rat --------------------------------
(* Exact rationals as normalised pairs <<num, den>>, den > 0, gcd(num, den) = 1.  TLC integers are 32 bit and
   overflow is a run-time error (not a wrap), so using Rat where numbers outgrow it fails loudly.           *)
EXTENDS Integers

RECURSIVE Gcd(_, _)
Gcd(a, b) == IF b = 0 THEN (IF a < 0 THEN 0 - a ELSE a) ELSE Gcd(b, a % b)
Abs(a) == IF a < 0 THEN 0 - a ELSE a
RNorm(n, d) == LET g == Gcd(Abs(n), Abs(d))
                   s == IF d < 0 THEN 0 - 1 ELSE 1 IN
               IF n = 0 THEN <<0, 1>> ELSE <<(s * n) \div g, (s * d) \div g>>
RInt(k)     == <<k, 1>>
RAdd(a, b)  == LET g == Gcd(a[2], b[2]) IN     \* over the least common denominator: keeps numbers small
               RNorm(a[1] * (b[2] \div g) + b[1] * (a[2] \div g), (a[2] \div g) * b[2])
RNeg(a)     == <<0 - a[1], a[2]>>
RSub(a, b)  == RAdd(a, RNeg(b))
RMul(a, b)  == LET g1 == Gcd(Abs(a[1]), b[2])  g2 == Gcd(Abs(b[1]), a[2]) IN   \* cross-cancel first: keeps products small
               RNorm((a[1] \div g1) * (b[1] \div g2), (a[2] \div g2) * (b[2] \div g1))
RInv(a)     == RNorm(a[2], a[1])
RDiv(a, b)  == RMul(a, RInv(b))
REq(a, b)   == a[1] * b[2] = b[1] * a[2]
RLess(a, b) == a[1] * b[2] < b[1] * a[2]
RLeq(a, b)  == a[1] * b[2] <= b[1] * a[2]
RIsNorm(a)  == a[2] > 0 /\ Gcd(Abs(a[1]), a[2]) = 1
RFloor(a)   == a[1] \div a[2]
RSq(a)      == RMul(a, a)
=============================================================================

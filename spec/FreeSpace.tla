----------------------------- MODULE FreeSpace -----------------------------
(* C02 (free-space part) -- the angular-spectrum transfer function as an exact phase table.

     H[ky][kx] = exp(i pi phi),   phi = - lambda z (fy^2 + fx^2),   f = FftFreq(n) / (n dx)   (natural FFT order)

   with lambda converted from microns to millimetres (the library's unit rule).  |H| = 1 by construction, so
   propagation = IDFT . diag(H) . DFT is unitary because the DFT is (Dft.tla, UnitaryLaw).  TLC checks the
   algebra of phi: zero at z = 0 and at DC, odd in z, additive in z, symmetric in +-f.                       *)
EXTENDS Integers, Sequences, TLC, Json, GridLib, Rat

CONSTANTS Shapes,   \* set of <<rows, cols>>
          Lams,     \* wavelengths in microns, <<num, den>>
          Dxs,      \* sample spacings in mm
          Zs,       \* distances in mm (positive, negative, zero)
          EmitOn

VARIABLES shape, lam, dx, z1, z2, done
vars == <<shape, lam, dx, z1, z2, done>>

Freq(n, k) == RDiv(RInt(FftFreq(n)[k]), RMul(RInt(n), dx))            \* cycles / mm
LamMm      == RDiv(lam, RInt(1000))
Phi(z, ky, kx) == RNeg(RMul(RMul(LamMm, z), RAdd(RSq(Freq(shape[1], ky)), RSq(Freq(shape[2], kx)))))
PhiTable(z) == [ky \in 1..shape[1] |-> [kx \in 1..shape[2] |-> Phi(z, ky, kx)]]

Init == /\ shape \in Shapes /\ lam \in Lams /\ dx \in Dxs /\ z1 \in Zs /\ z2 \in Zs /\ done = FALSE
Compute == done = FALSE /\ done' = TRUE /\ UNCHANGED <<shape, lam, dx, z1, z2>>
Next == Compute
Spec == Init /\ [][Next]_vars

Cells == (1..shape[1]) \X (1..shape[2])
ZeroDistance == \A p \in Cells : Phi(<<0, 1>>, p[1], p[2]) = <<0, 1>>
DcIsZero     == Phi(z1, 1, 1) = <<0, 1>>
OddInZ       == \A p \in Cells : Phi(RNeg(z1), p[1], p[2]) = RNeg(Phi(z1, p[1], p[2]))
Additive     == \A p \in Cells : RAdd(Phi(z1, p[1], p[2]), Phi(z2, p[1], p[2])) = Phi(RAdd(z1, z2), p[1], p[2])
\* +f and -f see the same phase: H is even in each frequency (so a real, even field stays real-even-symmetric)
EvenInF      == \A ky1, ky2 \in 1..shape[1], kx \in 1..shape[2] :
                   FftFreq(shape[1])[ky1] = 0 - FftFreq(shape[1])[ky2] => Phi(z1, ky1, kx) = Phi(z1, ky2, kx)
Normalised   == \A p \in Cells : RIsNorm(Phi(z1, p[1], p[2]))

Rec == [shape |-> shape, lam |-> lam, dx |-> dx, z1 |-> z1, z2 |-> z2,
        phi1 |-> PhiTable(z1), phi2 |-> PhiTable(z2), phi12 |-> PhiTable(RAdd(z1, z2))]
Emit == (EmitOn /\ done) => PrintT(<<"EMIT", ToJson(Rec)>>)
=============================================================================

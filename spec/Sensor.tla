------------------------------- MODULE Sensor -------------------------------
(* C16 -- sensor model: DN stay in range; binning and mosaicking conserve signal.

   Mode "expose": the exposure pipeline of prysm.detector.Detector as a sequential machine over exact rationals
       electrons -> + dark -> (shot noise: off) -> + bias -> clip at full well -> / conversion gain
                 -> clip to [0, Cap] -> convert to integer -> cast to the unsigned container -> DN
     The integer conversion is left open (floor or round-half-up); the container cast is modular, as numpy's is, so a
     value of 2^bits wraps to 0 in a container of exactly `bits` bits.  Cap = 2^bits - 1 is the specified design;
     CapPow2 = TRUE is the pinned tree (Cap = 2^bits) and must violate InRange and Monotone.
   Mode "bin":   bindown / tile as index maps on N-D integer arrays (N <= 3), sums carried over the common denominator.
   Mode "bayer": the colour-site map of both filter layouts, decomposition, recomposition, native-site preservation.      *)
EXTENDS Integers, Sequences, FiniteSets, FiniteSetsExt, TLC, Json, Rat

CONSTANTS Mode, EmitOn,
          Bits, Gains, Biases, Darks, Texps, CapPow2,     \* expose
          BinShapes,                                      \* bin: set of <<shape, factor>> (sequences of equal length)
          Mosaics                                         \* bayer: set of <<rows, cols>>, both even

VARIABLES cfg, done
vars == <<cfg, done>>

Pow2(n) == 2 ^ n
---------------------------------------------------------------------------
(* expose *)
Cap(b)   == IF CapPow2 THEN Pow2(b) ELSE Pow2(b) - 1
Width(b) == IF b <= 8 THEN 8 ELSE IF b <= 16 THEN 16 ELSE 32
Cast(v, w) == IF w = 32 THEN v ELSE v % Pow2(w)
RMin(a, b) == IF RLeq(a, b) THEN a ELSE b
RMax(a, b) == IF RLeq(a, b) THEN b ELSE a
\* exact value presented to the integer conversion
Analog(c, e) == LET q1 == RMin(RInt(e * c.texp + c.dark * c.texp + c.bias), RInt(c.fwc))
                    q2 == RDiv(q1, c.gain) IN
                RMin(RMax(q2, RInt(0)), RInt(Cap(c.bits)))
Floor(q) == q[1] \div q[2]
Round(q) == (2 * q[1] + q[2]) \div (2 * q[2])
DNs(c, e) == {Cast(Floor(Analog(c, e)), Width(c.bits)), Cast(Round(Analog(c, e)), Width(c.bits))}
\* signal levels at and around every threshold of the pipeline
CapE(c) == ((Cap(c.bits) * c.gain[1]) \div c.gain[2]) - c.bias - c.dark * c.texp
FwcE(c) == c.fwc - c.bias - c.dark * c.texp
Levels(c) == {x \in {0, 1, 2, CapE(c) \div (2 * c.texp), (CapE(c) \div c.texp) - 1, CapE(c) \div c.texp, (CapE(c) \div c.texp) + 1,
                     (CapE(c) \div c.texp) + 2, (FwcE(c) \div c.texp) - 1, FwcE(c) \div c.texp, (FwcE(c) \div c.texp) + 1,
                     3 * (FwcE(c) \div c.texp) + 7} : x >= 0}
ExposeCfgs == {c \in [bits : Bits, gain : Gains, bias : Biases, dark : Darks, texp : Texps, fwc : {0}, well : {"deep", "shallow"}] : TRUE}
\* full well either beyond what saturates the ADC ("deep") or below it ("shallow": the well clips first)
WithWell(c) == [c EXCEPT !.fwc = IF c.well = "deep" THEN ((2 * Pow2(c.bits) * c.gain[1]) \div c.gain[2]) + 10
                                 ELSE ((Pow2(c.bits) * c.gain[1]) \div (2 * c.gain[2])) + 3]

---------------------------------------------------------------------------
(* bin / tile *)
RECURSIVE Idx(_)
Idx(sh) == IF sh = << >> THEN {<< >>} ELSE {<<i>> \o t : i \in 1..Head(sh), t \in Idx(Tail(sh))}
RECURSIVE Prod(_)
Prod(s) == IF s = << >> THEN 1 ELSE Head(s) * Prod(Tail(s))
SumOver(S, f(_)) == MapThenSumSet(f, S)
Stride(sh, k) == Prod(SubSeq(sh, k + 1, Len(sh)))
Unravel(n, sh) == [k \in 1..Len(sh) |-> (((n - 1) \div Stride(sh, k)) % sh[k]) + 1]      \* C (row-major) order
Primes == <<3, 7, 11>>
RECURSIVE Dot(_, _)
Dot(i, p) == IF i = << >> THEN 0 ELSE Head(i) * Head(p) + Dot(Tail(i), Tail(p))
ValA(i) == 1 + (Dot(i, Primes) % 5)                                   \* the fine array
ValY(o) == 2 + (Dot(o, <<5, 2, 13>>) % 4)                             \* a coarse array
Coarse(sh, f) == [k \in 1..Len(sh) |-> sh[k] \div f[k]]
Parent(i, f) == [k \in 1..Len(i) |-> ((i[k] - 1) \div f[k]) + 1]
Block(o, sh, f) == {i \in Idx(sh) : Parent(i, f) = o}
BinSum(o, sh, f) == LET V(i) == ValA(i) IN SumOver(Block(o, sh, f), V)

---------------------------------------------------------------------------
(* bayer *)
\* colour site of cell <<i, j>> (1-based) : parity of row and column
Site(p) == <<(p[1] - 1) % 2, (p[2] - 1) % 2>>
Plane(cfa, p) == LET s == Site(p) IN
   CASE s = <<0, 1>> -> "g1"
     [] s = <<1, 0>> -> "g2"
     [] s = <<0, 0>> -> IF cfa = "rggb" THEN "r" ELSE "b"
     [] OTHER        -> IF cfa = "rggb" THEN "b" ELSE "r"
Colour(cfa, p) == LET pl == Plane(cfa, p) IN IF pl = "r" THEN 0 ELSE IF pl = "b" THEN 2 ELSE 1      \* index into RGB
Lbl(m, p) == (p[1] - 1) * m[2] + p[2]                                   \* raw sample label
Half(p) == <<(p[1] + 1) \div 2, (p[2] + 1) \div 2>>
Decomp(cfa, m, name) == [q \in (1..(m[1] \div 2)) \X (1..(m[2] \div 2)) |->
    Lbl(m, CHOOSE p \in (1..m[1]) \X (1..m[2]) : Half(p) = q /\ Plane(cfa, p) = name)]
Recomp(cfa, m, planes) == [p \in (1..m[1]) \X (1..m[2]) |-> planes[Plane(cfa, p)][Half(p)]]

---------------------------------------------------------------------------
Init == /\ done = FALSE
        /\ CASE Mode = "expose" -> \E c \in ExposeCfgs : cfg = [k |-> "expose", c |-> WithWell(c)]
             [] Mode = "bin"    -> \E b \in BinShapes : cfg = [k |-> "bin", shape |-> b[1], factor |-> b[2]]
             [] Mode = "bayer"  -> \E m \in Mosaics, cfa \in {"rggb", "bggr"} : cfg = [k |-> "bayer", m |-> m, cfa |-> cfa]
Compute == done = FALSE /\ done' = TRUE /\ UNCHANGED cfg
Next == Compute
Spec == Init /\ [][Next]_vars

---------------------------------------------------------------------------
InRange == Mode = "expose" => \A e \in Levels(cfg.c) : \A d \in DNs(cfg.c, e) : d \in 0..(Pow2(cfg.c.bits) - 1)
Monotone == Mode = "expose" => \A e1, e2 \in Levels(cfg.c) : e1 <= e2 =>
               /\ Cast(Floor(Analog(cfg.c, e1)), Width(cfg.c.bits)) <= Cast(Floor(Analog(cfg.c, e2)), Width(cfg.c.bits))
               /\ Cast(Round(Analog(cfg.c, e1)), Width(cfg.c.bits)) <= Cast(Round(Analog(cfg.c, e2)), Width(cfg.c.bits))
Saturates == Mode = "expose" => LET top == CHOOSE e \in Levels(cfg.c) : \A x \in Levels(cfg.c) : x <= e IN
               cfg.c.well = "deep" => DNs(cfg.c, top) = {Pow2(cfg.c.bits) - 1}      \* the brightest pixel reads full scale

BinLaws == Mode = "bin" =>
   LET sh == cfg.shape  f == cfg.factor  co == Coarse(sh, f)
       A(i) == ValA(i)
       B(o) == BinSum(o, sh, f)
       Y(o) == ValY(o)
       TileY(i) == ValY(Parent(i, f))
       BinY(o) == BinSum(o, sh, f) * ValY(o)
       ATileY(i) == ValA(i) * ValY(Parent(i, f)) IN
   /\ \A k \in 1..Len(sh) : sh[k] % f[k] = 0
   /\ SumOver(Idx(co), B) = SumOver(Idx(sh), A)                          \* sum mode conserves the total
   /\ SumOver(Idx(sh), TileY) = Prod(f) * SumOver(Idx(co), Y)               \* tiling replicates: 'sum' scaling divides by prod(f)
   /\ SumOver(Idx(co), BinY) = SumOver(Idx(sh), ATileY)                        \* <Bin x, y> = <x, Tile y>
   /\ \A o \in Idx(co) : Cardinality(Block(o, sh, f)) = Prod(f)          \* average mode: level of a constant is kept

BayerLaws == Mode = "bayer" =>
   LET m == cfg.m  cfa == cfg.cfa
       planes == [n \in {"r", "g1", "g2", "b"} |-> Decomp(cfa, m, n)] IN
   /\ \A p \in (1..m[1]) \X (1..m[2]) : Recomp(cfa, m, planes)[p] = Lbl(m, p)       \* every raw sample back at its own site
   /\ \A p \in (1..m[1]) \X (1..m[2]) : Plane("rggb", p) \in {"g1", "g2"} <=> Plane("bggr", p) \in {"g1", "g2"}
   /\ \A p \in (1..m[1]) \X (1..m[2]) : (Plane("rggb", p) = "r") <=> (Plane("bggr", p) = "b")
   /\ Cardinality({p \in (1..m[1]) \X (1..m[2]) : Colour(cfa, p) = 1}) = 2 * Cardinality({p \in (1..m[1]) \X (1..m[2]) : Colour(cfa, p) = 0})

---------------------------------------------------------------------------
SeqOfSet(S) == LET RECURSIVE H(_, _)
                   H(T, acc) == IF T = {} THEN acc ELSE LET x == CHOOSE y \in T : \A z \in T : y <= z IN H(T \ {x}, Append(acc, x))
               IN H(S, << >>)
Rec == CASE Mode = "expose" -> [k |-> "expose", c |-> cfg.c, cap |-> Cap(cfg.c.bits), width |-> Width(cfg.c.bits),
                                levels |-> SeqOfSet(Levels(cfg.c)),
                                analog |-> [i \in 1..Cardinality(Levels(cfg.c)) |-> Analog(cfg.c, SeqOfSet(Levels(cfg.c))[i])]]
         [] Mode = "bin"    -> [k |-> "bin", shape |-> cfg.shape, factor |-> cfg.factor, coarse |-> Coarse(cfg.shape, cfg.factor),
                                a |-> [n \in 1..Prod(cfg.shape) |-> ValA(Unravel(n, cfg.shape))],
                                y |-> [n \in 1..Prod(Coarse(cfg.shape, cfg.factor)) |-> ValY(Unravel(n, Coarse(cfg.shape, cfg.factor)))],
                                binsum |-> [n \in 1..Prod(Coarse(cfg.shape, cfg.factor)) |->
                                              BinSum(Unravel(n, Coarse(cfg.shape, cfg.factor)), cfg.shape, cfg.factor)]]
         [] OTHER           -> [k |-> "bayer", m |-> cfg.m, cfa |-> cfg.cfa,
                                colour |-> [i \in 1..cfg.m[1] |-> [j \in 1..cfg.m[2] |-> Colour(cfg.cfa, <<i, j>>)]],
                                plane |-> [i \in 1..cfg.m[1] |-> [j \in 1..cfg.m[2] |-> Plane(cfg.cfa, <<i, j>>)]]]
Emit == (EmitOn /\ done) => PrintT(<<"EMIT", ToJson(Rec)>>)
=============================================================================

------------------------------ MODULE ThinFilm ------------------------------
(* C17 -- thin-film and Fresnel coefficients conserve energy and agree with each other.

   Exact arithmetic in Q(i) (Gauss.tla over ModQ) on a Pythagorean family: the ambient index n0 and the sine of the angle
   of incidence are rational, every layer is given by its index n and the rational cosine of the refracted angle inside
   it (the menu is chosen so that Snell's law  n sin(theta) = n0 sin(theta0)  holds exactly -- checked), and the phase
   thickness beta = 2 pi n d cos(theta) / lambda of a layer is given by its rational (cos, sin).
   A stack is a sequence of layers; as in the library the LAST entry is the substrate: it contributes its characteristic
   matrix and is also the exit medium.  Admittances: s: eta = n cos(theta),  p: eta = n / cos(theta).
        M_j = [[cos b, -i sin b / eta_j], [-i eta_j sin b, cos b]],   M = M_1 ... M_k,
        B = M11 + M12 eta_e,  C = M21 + M22 eta_e,   r = (eta0 B - C)/(eta0 B + C),
        t = 2 eta0 / (eta0 B + C)   (times cos(theta0)/cos(theta_e) for p: ratio of field amplitudes)
   Laws: R + T (n_e cos_e)/(n_0 cos_0) = 1 for lossless stacks; a single interface is the Fresnel closed form (r_p = 0 at
   Brewster's angle); a zero-thickness layer changes nothing; a half-wave (beta = pi) layer leaves R and T unchanged.
   Variant "rp-pinned" is the pinned fresnel_rp denominator and must violate FresnelLaw.                                *)
EXTENDS Integers, Sequences, FiniteSets, TLC, Json, Rat, ModQ, Gauss

CONSTANTS Configs,     \* set of [n0, c0, s0, media]: ambient index, cos and sin of incidence, media = set of <<n (Gaussian rational <<re, im>>), cos(theta)>>
          Betas,       \* set of <<cos b, sin b>>, each a Gaussian rational <<re, im>>
          MaxLayers,   \* thin layers on top of the substrate
          EmitPols,    \* polarisations explored by this run (both, unless an emission run is partitioned)
          Variant, EmitOn

VARIABLES cf, stack, pol, done, res
vars == <<cf, stack, pol, done, res>>

\* phase thicknesses are pairs <<cos b, sin b>> of Gaussian rationals (real for lossless layers; cos(x - i ln 2) etc. for absorbing ones)
BetaZero == <<<<<<1, 1>>, <<0, 1>>>>, <<<<0, 1>>, <<0, 1>>>>>>
BetaPi == <<<<<<0 - 1, 1>>, <<0, 1>>>>, <<<<0, 1>>, <<0, 1>>>>>>
GN(n) == G(MRat(n[1][1], n[1][2]), MRat(n[2][1], n[2][2]))          \* Gaussian rational index <<re, im>> of Rats
IsReal(n) == n[2][1] = 0
Eta(n, c, p) == IF p = "s" THEN GMul(GN(n), GQ(c)) ELSE GDiv(GN(n), GQ(c))
Layer(l, p) == LET e == Eta(l.n, l.c, p)  cb == GN(l.b[1])  sb == GN(l.b[2])  mi == GNeg(GI) IN
               Mat2(cb, GDiv(GMul(mi, sb), e), GMul(GMul(mi, e), sb), cb)
LayersOf(c) == [n : {m[1] : m \in c.media}, c : {m[2] : m \in c.media}, b : Betas]
ValidLayer(c, l) == <<l.n, l.c>> \in c.media /\ (IsReal(l.n) <=> (IsReal(l.b[1]) /\ IsReal(l.b[2])))
ValidLayers(c) == {l \in LayersOf(c) : ValidLayer(c, l)}
\* constant tables, evaluated once: every ModQ conversion and inversion of the menu happens here, not per state
AllLayers == UNION {ValidLayers(c) : c \in Configs}
Pols == {"s", "p"}
LayerM == TLCEval([l \in AllLayers |-> [p \in Pols |-> Layer(l, p)]])
EtaL == TLCEval([l \in AllLayers |-> [p \in Pols |-> Eta(l.n, l.c, p)]])
Eta0 == TLCEval([c \in Configs |-> [p \in Pols |-> Eta(<<c.n0, <<0, 1>>>>, c.c0, p)]])
CosRatio == TLCEval([c \in Configs |-> [l \in ValidLayers(c) |-> GDiv(GQ(c.c0), GQ(l.c))]])
TFac == TLCEval([c \in Configs |-> [l \in ValidLayers(c) |->
           MDiv(MMul(MRat(l.n[1][1], l.n[1][2]), MRat(l.c[1], l.c[2])), MMul(MRat(c.n0[1], c.n0[2]), MRat(c.c0[1], c.c0[2])))]])
Two == GQ(<<2, 1>>)
RECURSIVE Prod(_, _, _)
Prod(st, p, k) == IF k > Len(st) THEN Ident(2) ELSE MatMul(LayerM[st[k]][p], Prod(st, p, k + 1), 2)
Solve(st, p) ==
  LET M == Prod(st, p, 1)
      last == st[Len(st)]
      ee == EtaL[last][p]
      e0 == Eta0[cf][p]
      B == GAdd(M[1][1], GMul(M[1][2], ee))
      C == GAdd(M[2][1], GMul(M[2][2], ee))
      den == GAdd(GMul(e0, B), C)
      r == GDiv(GSub(GMul(e0, B), C), den)
      tt == GDiv(GMul(Two, e0), den)
      t == IF p = "s" THEN tt ELSE GMul(tt, CosRatio[cf][last]) IN
  [r |-> r, t |-> t]
\* T factor (n_e cos_e) / (n_0 cos_0), real media
TFactor(st) == TFac[cf][st[Len(st)]]

Stacks(c) == UNION {[1..k -> ValidLayers(c)] : k \in 1..(MaxLayers + 1)}

Init == /\ cf \in Configs /\ pol \in EmitPols /\ stack \in Stacks(cf) /\ done = FALSE /\ res = << >>
Compute == done = FALSE /\ done' = TRUE /\ res' = Solve(stack, pol) /\ UNCHANGED <<cf, stack, pol>>
Next == Compute
Spec == Init /\ [][Next]_vars

Lossless == \A k \in 1..Len(stack) : IsReal(stack[k].n) /\ IsReal(stack[k].b[1]) /\ IsReal(stack[k].b[2])
\* Snell, exactly:  n^2 (1 - cos^2) = n0^2 s0^2   (real media)
SnellLaw == \A k \in 1..Len(stack) : IsReal(stack[k].n) =>
   LET n == stack[k].n[1]  c == stack[k].c IN
   RMul(RMul(n, n), RSub(<<1, 1>>, RMul(c, c))) = RMul(RMul(cf.n0, cf.n0), RMul(cf.s0, cf.s0))
EnergyLaw == (done /\ Lossless) => MAdd(GAbs2(res.r), MMul(GAbs2(res.t), TFactor(stack))) = MOne
\* a single interface (substrate only): Fresnel closed forms, independent of the substrate's own phase thickness in modulus
FresnelRs(n0, c0, n1, c1) == GDiv(GSub(GMul(GQ(n0), GQ(c0)), GMul(GN(n1), GQ(c1))), GAdd(GMul(GQ(n0), GQ(c0)), GMul(GN(n1), GQ(c1))))
FresnelRp(n0, c0, n1, c1) == GDiv(GSub(GMul(GQ(n0), GQ(c1)), GMul(GN(n1), GQ(c0))),
                                  IF Variant = "rp-pinned" THEN GAdd(GMul(GN(n1), GQ(c1)), GMul(GN(n1), GQ(c0)))
                                                           ELSE GAdd(GMul(GQ(n0), GQ(c1)), GMul(GN(n1), GQ(c0))))
FresnelTs(n0, c0, n1, c1) == GDiv(GMul(GQ(<<2, 1>>), GMul(GQ(n0), GQ(c0))), GAdd(GMul(GQ(n0), GQ(c0)), GMul(GN(n1), GQ(c1))))
FresnelTp(n0, c0, n1, c1) == GDiv(GMul(GQ(<<2, 1>>), GMul(GQ(n0), GQ(c0))), GAdd(GMul(GQ(n0), GQ(c1)), GMul(GN(n1), GQ(c0))))
FresnelLaw == (done /\ Len(stack) = 1) =>
   LET l == stack[1]
       fr == IF pol = "s" THEN FresnelRs(cf.n0, cf.c0, l.n, l.c) ELSE FresnelRp(cf.n0, cf.c0, l.n, l.c)
       ft == IF pol = "s" THEN FresnelTs(cf.n0, cf.c0, l.n, l.c) ELSE FresnelTp(cf.n0, cf.c0, l.n, l.c) IN
   /\ res.r = fr
   /\ Lossless => GAbs2(res.t) = GAbs2(ft)             \* (an absorbing substrate attenuates t over its own thickness)
   /\ (l.b = BetaZero) => res.t = ft
   \* Brewster: tan(theta0) = n1 / n0  <=>  s0 n0 = c0 n1 (real n1)  =>  r_p = 0
   /\ (pol = "p" /\ IsReal(l.n) /\ RMul(cf.s0, cf.n0) = RMul(cf.c0, l.n[1])) => res.r = GZero
\* a zero-thickness layer (beta = 0) anywhere but in the substrate slot changes nothing;
\* a half-wave layer (beta = pi) leaves R and T unchanged
Without(st, k) == [i \in 1..(Len(st) - 1) |-> IF i < k THEN st[i] ELSE st[i + 1]]
AbsenteeLaw == done => \A k \in 1..(Len(stack) - 1) :
   LET other == Solve(Without(stack, k), pol) IN
   /\ (stack[k].b = BetaZero) => (other.r = res.r /\ other.t = res.t)
   /\ (stack[k].b = BetaPi) => (GAbs2(other.r) = GAbs2(res.r) /\ GAbs2(other.t) = GAbs2(res.t))

Rec == [n0 |-> cf.n0, c0 |-> cf.c0, s0 |-> cf.s0, pol |-> pol, stack |-> stack, r |-> res.r, t |-> res.t, lossless |-> Lossless]
Emit == (EmitOn /\ done) => PrintT(<<"EMIT", ToJson(Rec)>>)
=============================================================================

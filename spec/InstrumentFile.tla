--------------------------- MODULE InstrumentFile ---------------------------
(* C14 -- writing then reading an instrument file returns the same map; a file cut short inside its data block is
   rejected or read with the missing samples invalid and a warning.

   A height map is abstracted to its shape, the set of invalid (NaN) cells and, per cell, a LABEL = its own <<row, col>>
   (the replay driver gives every cell a different value, so a label in the wrong place is a value in the wrong place).
   A file is a header (the dimension fields that matter) followed by the samples in the writer's order.  Both formats
   store the map flipped top-to-bottom, row-major:
       Zygo .dat      header: width = cols, height = rows;  body: big-endian int32 per sample, invalid = sentinel
       Code V INT     header: GRD nx ny = cols rows;         body: one decimal token per sample, invalid = NDA token
   Fault model: the file is cut after `keep` complete samples, optionally with one more sample partially present
   (a prefix of its bytes / of its decimal token).  Variant selects the pinned tree's layout bugs; each must violate
   RoundTrip (vacuity guards): "flatflip" (Zygo reader flips the flat buffer), "swapdims" (Code V writer emits rows cols),
   "silenttoken" (Code V reader accepts a cut last token).                                                            *)
EXTENDS Integers, Sequences, FiniteSets, TLC, Json

CONSTANTS Shapes, Fmts, MaxInvalid, Variant, EmitOn,
          Origins      \* who wrote the first-generation file: "prysm", or "instrument" (a Zygo file that carries an intensity block)

VARIABLES fmt, shape, invalid, hdr, body, keep, partial, res, phase,
          dxv,   \* abstract id of the map's lateral spacing (1, 2, ...); the header carries it
          gen,   \* 1: first write of a fresh map; 2: the map that was read back, re-calibrated, and written again
          origin,
          hdrac, \* number of intensity samples the header DECLARES in front of the phase block
          pre    \* number of intensity samples actually in the file
vars == <<fmt, shape, invalid, hdr, body, keep, partial, res, phase, dxv, gen, origin, hdrac, pre>>
IA == 12         \* size of an instrument's intensity frame (4 x 3 samples, one bucket)

R == shape[1]
C == shape[2]
Cells == (1..R) \X (1..C)
N == R * C

\* writer: sample t (1-based) of the body is the cell ...
BodyCell(t) == <<R - ((t - 1) \div C), ((t - 1) % C) + 1>>                 \* flipud, then row-major
WriteHdr == IF fmt = "codev" /\ Variant = "swapdims" THEN <<R, C, dxv>> ELSE <<C, R, dxv>>   \* <<first, second>> dimension fields, spacing
WriteBody == [t \in 1..N |-> [cell |-> BodyCell(t), inv |-> BodyCell(t) \in invalid]]

\* reader: dimensions from the header, then the sample that lands in out[i][j]
RdCols == hdr[1]
RdRows == hdr[2]
Src(i, j) == IF fmt = "zygo" /\ Variant = "flatflip"
             THEN (RdRows * RdCols) + 1 - ((i - 1) * RdCols + j)            \* flip of the FLAT buffer, then reshape
             ELSE (RdRows - i) * RdCols + j                                  \* reshape, then flip top-to-bottom

Init == /\ fmt \in Fmts /\ shape \in Shapes
        /\ invalid \in {S \in SUBSET Cells : Cardinality(S) <= MaxInvalid}
        /\ hdr = <<0, 0, 0>> /\ body = << >> /\ keep = 0 /\ partial = FALSE
        /\ res = [k |-> "none"] /\ phase = "new" /\ dxv = 1 /\ gen = 1
        /\ origin \in {o \in Origins : o = "prysm" \/ fmt = "zygo"} /\ hdrac = 0 /\ pre = 0

\* the first-generation file of an instrument has its intensity frame between header and phase block and says so in the header;
\* prysm's writer emits no intensity block and must declare none -- also when the map it writes was LOADED from an instrument file
\* (variant "stale-ac": the loaded header's intensity descriptors are carried into the new header)
ByInstrument == gen = 1 /\ origin = "instrument"
Write == /\ phase = "new" /\ hdr' = WriteHdr /\ body' = WriteBody /\ keep' = N /\ phase' = "written"
         /\ pre' = (IF ByInstrument THEN IA ELSE 0)
         /\ hdrac' = (IF ByInstrument THEN IA ELSE IF Variant = "stale-ac" THEN hdrac ELSE 0)
         /\ UNCHANGED <<fmt, shape, invalid, partial, res, dxv, gen, origin>>

Truncate(k, p) == /\ phase = "written" /\ k \in 0..(N - 1) /\ keep' = k /\ partial' = p /\ phase' = "cut"
                  /\ UNCHANGED <<fmt, shape, invalid, hdr, body, res, dxv, gen, origin, hdrac, pre>>

\* what reading the (possibly cut) file yields in the specified design
Missing == {p \in (1..RdRows) \X (1..RdCols) : Src(p[1], p[2]) > keep}
ReadOk(warn) ==
   [k |-> "ok", warned |-> warn, shape |-> <<RdRows, RdCols>>, dx |-> hdr[3],
    cells |-> [i \in 1..RdRows |-> [j \in 1..RdCols |->
                  IF Src(i, j) \in 1..keep THEN body[Src(i, j)].cell ELSE <<0, 0>>]],
    invalid |-> {p \in (1..RdRows) \X (1..RdCols) :
                    \/ Src(p[1], p[2]) > keep
                    \/ (Src(p[1], p[2]) \in 1..keep /\ body[Src(p[1], p[2])].inv)}]
Read ==
  /\ phase \in {"written", "cut"} /\ phase' = "read"
  /\ res' = IF hdrac # pre THEN [k |-> "misread"]                                   \* the phase block is not where the header says
            ELSE IF keep = N THEN ReadOk(FALSE)
            ELSE IF fmt = "zygo" THEN ReadOk(TRUE)                                     \* pads, warns, marks the tail invalid
            ELSE IF Variant = "silenttoken" /\ keep = N - 1 /\ partial THEN
                     [ReadOk(FALSE) EXCEPT !.invalid = {p \in @ : Src(p[1], p[2]) <= keep}]   \* cut token parsed as a number
            ELSE [k |-> "exc"]                                                         \* too few tokens / cut token: rejected
  /\ UNCHANGED <<fmt, shape, invalid, hdr, body, keep, partial, dxv, gen, origin, hdrac, pre>>

\* the map that was read back is re-calibrated to a new spacing and saved again (a history, not a fresh object)
Recal == /\ phase = "read" /\ keep = N /\ gen = 1 /\ res.k = "ok"
         /\ shape' = res.shape /\ invalid' = res.invalid /\ dxv' = 2 /\ gen' = 2
         /\ phase' = "new" /\ res' = [k |-> "none"] /\ partial' = FALSE
         /\ UNCHANGED <<fmt, hdr, body, keep, origin, hdrac, pre>>
DoTruncate == \E k \in 0..(N - 1), p \in BOOLEAN : Truncate(k, p)
Next == Write \/ Read \/ DoTruncate \/ Recal
Spec == Init /\ [][Next]_vars

---------------------------------------------------------------------------
Intact == keep = N
RoundTrip == (phase = "read" /\ Intact) =>
   /\ res.k = "ok" /\ ~res.warned
   /\ res.shape = shape
   /\ \A p \in Cells : res.cells[p[1]][p[2]] = p            \* every sample at its own position: orientation and shape
   /\ res.invalid = invalid
   /\ res.dx = dxv                                        \* the spacing of the map as it was when it was written
NoSilentTruncation == (phase = "read" /\ ~Intact) =>
   \/ res.k = "exc"
   \/ /\ res.k = "ok" /\ res.warned
      /\ \A t \in (keep + 1)..N : body[t].cell \in res.invalid     \* every sample whose bytes are gone is invalid
      /\ \A p \in Cells : (p \notin res.invalid) => res.cells[p[1]][p[2]] = p

Rec == [gen |-> gen, dxv |-> dxv, fmt |-> fmt, shape |-> shape, invalid |-> invalid, keep |-> keep, partial |-> partial, n |-> N,
        missing |-> {body[t].cell : t \in (keep + 1)..N}, design |-> res.k, origin |-> origin, hdrac |-> hdrac, pre |-> pre]
Emit == (EmitOn /\ phase = "read") => PrintT(<<"EMIT", ToJson(Rec)>>)
=============================================================================

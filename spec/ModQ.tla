-------------------------------- MODULE ModQ --------------------------------
(* Exact rational arithmetic beyond 32 bits: a rational is carried as its residues modulo sixteen primes just below
   sqrt(2^31) (so that a product of two residues never overflows TLC's integers).  Field operations are component-wise,
   inverses by Fermat's little theorem.  EQUALITY ONLY (no order).  Two rationals whose numerators and denominators are
   below sqrt(M/2), M = product of the primes ~ 2^247, are equal iff their residue vectors are equal; the harness
   reconstructs values by CRT + rational reconstruction and re-derives the residues as a self-check.  None of the
   denominators used by the specifications (factorials up to 40!, small powers, menu constants) is divisible by a prime
   of the table.                                                                                                        *)
EXTENDS Integers, Sequences

MPrimes == <<46337, 46327, 46309, 46307, 46301, 46279, 46273, 46271, 46261, 46237, 46229, 46219, 46199, 46187, 46183, 46181>>
MK == 16
MRes(n, p) == ((n % p) + p) % p
MQ(n) == [i \in 1..MK |-> MRes(n, MPrimes[i])]                    \* an integer
MZero == MQ(0)
MOne == MQ(1)
MAdd(a, b) == [i \in 1..MK |-> (a[i] + b[i]) % MPrimes[i]]
MSub(a, b) == [i \in 1..MK |-> (a[i] - b[i] + MPrimes[i]) % MPrimes[i]]
MNeg(a) == MSub(MZero, a)
MMul(a, b) == [i \in 1..MK |-> (a[i] * b[i]) % MPrimes[i]]
MScale(k, a) == MMul(MQ(k), a)
RECURSIVE PowMod(_, _, _)
PowMod(b, e, p) == IF e = 0 THEN 1
                   ELSE LET h == PowMod(b, e \div 2, p)  hh == (h * h) % p IN
                        IF e % 2 = 0 THEN hh ELSE (hh * b) % p
MInv(a) == [i \in 1..MK |-> PowMod(a[i], MPrimes[i] - 2, MPrimes[i])]
MDiv(a, b) == MMul(a, MInv(b))
MRat(n, d) == MDiv(MQ(n), MQ(d))
MIsUnit(a) == \A i \in 1..MK : a[i] # 0                             \* safe to invert
RECURSIVE MPow(_, _)
MPow(a, k) == IF k = 0 THEN MOne ELSE MMul(a, MPow(a, k - 1))
RECURSIVE MFact(_)
MFact(k) == IF k <= 1 THEN MOne ELSE MMul(MQ(k), MFact(k - 1))
\* rising factorial (p/q)_k as the pair <<numerator, denominator>> of ModQ values (one division at the end)
RECURSIVE MRiseNum(_, _, _)
MRiseNum(p, q, k) == IF k = 0 THEN MOne ELSE MMul(MQ(p + (k - 1) * q), MRiseNum(p, q, k - 1))
MRise(r, k) == MDiv(MRiseNum(r[1], r[2], k), MPow(MQ(r[2]), k))     \* r = <<p, q>>

\* polynomials: sequences of ModQ coefficients, lowest power first (index 1 = constant term)
PZero == << >>
PCoefQ(p, i) == IF i >= 1 /\ i <= Len(p) THEN p[i] ELSE MZero
PAddQ(p, q) == [i \in 1..(IF Len(p) > Len(q) THEN Len(p) ELSE Len(q)) |-> MAdd(PCoefQ(p, i), PCoefQ(q, i))]
PScaleQ(c, p) == [i \in 1..Len(p) |-> MMul(c, p[i])]
PMulQ(p, q) == IF p = << >> \/ q = << >> THEN << >>
               ELSE [i \in 1..(Len(p) + Len(q) - 1) |->
                       LET lo == IF i - Len(q) + 1 > 1 THEN i - Len(q) + 1 ELSE 1
                           hi == IF i < Len(p) THEN i ELSE Len(p)
                           S[j \in (lo - 1)..hi] == IF j = lo - 1 THEN MZero ELSE MAdd(S[j - 1], MMul(p[j], q[i - j + 1]))
                       IN S[hi]]
PDerQ(p) == IF Len(p) <= 1 THEN << >> ELSE [i \in 1..(Len(p) - 1) |-> MScale(i, p[i + 1])]
\* Horner evaluation at the ModQ point t
PEvalQ(p, t) == LET H[i \in 0..Len(p)] == IF i = 0 THEN MZero ELSE MAdd(MMul(H[i - 1], t), p[Len(p) - i + 1]) IN H[Len(p)]
=============================================================================

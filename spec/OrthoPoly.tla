------------------------------ MODULE OrthoPoly ------------------------------
(* C07 / C09 -- polynomial bases equal their mathematical definitions; derivative routines are the derivatives.

   Every family is DEFINED by its textbook closed form -- never by the three-term recurrence the library uses -- as a
   polynomial with rational coefficients carried exactly in ModQ (residues modulo sixteen primes):

     jacobi     DLMF 18.5.7   P_n^(a,b)(x) = SUM_l (n+a+b+1)_l (a+l+1)_(n-l) / (l! (n-l)!) ((x-1)/2)^l
     legendre   = jacobi(0,0)
     cheby1..4  T_n = (n/2) SUM_k (-1)^k (n-k-1)!/(k!(n-2k)!) (2x)^(n-2k);  U_n = SUM_k (-1)^k C(n-k,k) (2x)^(n-2k);
                V_n = U_n - U_(n-1);  W_n = U_n + U_(n-1)
     hermite    He_n = n! SUM_k (-1)^k x^(n-2k) / (k! (n-2k)! 2^k);  H_n = n! SUM_k (-1)^k (2x)^(n-2k) / (k! (n-2k)!)
     laguerre   L_n^a = SUM_i (-1)^i (a+i+1)_(n-i) / ((n-i)! i!) x^i
     dickson    D_n(x,a) = SUM_i n/(n-i) C(n-i,i) (-a)^i x^(n-2i) (D_0 = 2);  E_n(x,a) = SUM_i C(n-i,i) (-a)^i x^(n-2i)
     zernike    R_n^m(r) = SUM_k (-1)^k (n-k)! / (k! ((n+m)/2-k)! ((n-m)/2-k)!) r^(n-2k), norm^2 = 2(n+1)/(1+[m=0])
     qcon       r^4 P_n^(0,4)(2r^2-1)
   Derivatives are the FORMAL derivatives of these coefficient lists.  TLC checks on the model: orthogonality of every
   pair of orders and the norm under the family's weight through exact moments (Jacobi family, Zernike radial part),
   the Chebyshev explicit forms against their Jacobi characterisation, the boundary values P_n(1).  The values and
   derivative values at a menu of rational points are exported for the conformance replay.                              *)
EXTENDS Integers, Sequences, FiniteSets, TLC, Json, Rat, ModQ, PolyDefs

CONSTANTS Cases,       \* set of records [fam, a, b] ; a, b rationals <<num, den>> (family parameters; unused ones <<0,1>>)
          MaxN,        \* orders 0..MaxN
          UnitPts, RadPts, RealPts, PosPts,     \* rational evaluation points per domain
          EmitOn

VARIABLES cs, n, done
vars == <<cs, n, done>>

Domain(fam) == IF fam \in {"hermite_He", "hermite_H", "dickson1", "dickson2", "power"} THEN RealPts
               ELSE IF fam = "laguerre" THEN PosPts
               ELSE IF fam \in {"zernike", "qcon"} THEN RadPts ELSE UnitPts

---------------------------------------------------------------------------
Orthogonal == (done /\ IsJacFam(cs)) =>
   LET a == JacParams(cs)[1]  b == JacParams(cs)[2] IN
   /\ \A mm \in 0..(n - 1) : JacInner(n, mm, a, b) = MZero
   /\ JacInner(n, n, a, b) = JacNorm(n, a, b)
\* the explicit Chebyshev sums are the Jacobi polynomials of their parameters, normalised at x = 1 to 1, n+1, 1, 2n+1
ChebyIsJacobi == (done /\ cs.fam \in {"cheby1", "cheby2", "cheby3", "cheby4"}) =>
   LET a == JacParams(cs)[1]  b == JacParams(cs)[2]
       jac == [fam |-> "jacobi", a |-> a, b |-> b]
       end == CASE cs.fam = "cheby1" -> MOne [] cs.fam = "cheby2" -> MQ(n + 1) [] cs.fam = "cheby3" -> MOne [] OTHER -> MQ(2 * n + 1) IN
   /\ Value(cs, n, RI(1)) = end
   /\ \A x \in UnitPts : MMul(Value(cs, n, x), Value(jac, n, RI(1))) = MMul(Value(jac, n, x), end)
ZernikeOrtho == (done /\ cs.fam = "zernike") =>
   LET m == cs.a[1] IN
   /\ \A mm \in 0..(n - 1) : ((mm >= m /\ (mm - m) % 2 = 0) => ZernInner(n, mm, m) = MZero)
   /\ ZernInner(n, n, m) = MRat(1, 2 * (n + 1))                  \* hence unit RMS over the disk with norm^2 = 2(n+1)/(1+[m=0])
   /\ Value(cs, n, RI(1)) = MOne                                  \* R_n^m(1) = 1

ValidOrder(c, nn) == IF c.fam = "zernike" THEN nn >= c.a[1] /\ (nn - c.a[1]) % 2 = 0 ELSE TRUE
Init == /\ cs \in Cases /\ n \in {k \in 0..MaxN : ValidOrder(cs, k)} /\ done = FALSE
Compute == done = FALSE /\ done' = TRUE /\ UNCHANGED <<cs, n>>
Next == Compute
Spec == Init /\ [][Next]_vars

PtsSeq(S) == LET RECURSIVE H(_, _)
                 H(T, acc) == IF T = {} THEN acc ELSE LET x == CHOOSE y \in T : \A z \in T : RLeq(y, z) IN H(T \ {x}, Append(acc, x))
             IN H(S, << >>)
Rec == LET pts == PtsSeq(Domain(cs.fam)) IN
       [fam |-> cs.fam, a |-> cs.a, b |-> cs.b, n |-> n, pts |-> pts,
        vals |-> [i \in 1..Len(pts) |-> Value(cs, n, pts[i])],
        ders |-> [i \in 1..Len(pts) |-> Deriv(cs, n, pts[i])]]
Emit == (EmitOn /\ done) => PrintT(<<"EMIT", ToJson(Rec)>>)
=============================================================================

------------------------------ MODULE OrthoPoly ------------------------------
(* C07 / C09 -- polynomial bases equal their mathematical definitions; derivative routines are the derivatives.

   Every family is DEFINED by its textbook closed form -- never by the three-term recurrence the library uses -- as a
   polynomial with rational coefficients carried exactly in ModQ (residues modulo sixteen primes):

     jacobi     DLMF 18.5.7   P_n^(a,b)(x) = SUM_l (n+a+b+1)_l (a+l+1)_(n-l) / (l! (n-l)!) ((x-1)/2)^l
     legendre   = jacobi(0,0)
     cheby1..4  T_n = (n/2) SUM_k (-1)^k (n-k-1)!/(k!(n-2k)!) (2x)^(n-2k);  U_n = SUM_k (-1)^k C(n-k,k) (2x)^(n-2k);
                V_n = U_n - U_(n-1);  W_n = U_n + U_(n-1)
     hermite    He_n = n! SUM_k (-1)^k x^(n-2k) / (k! (n-2k)! 2^k);  H_n = n! SUM_k (-1)^k (2x)^(n-2k) / (k! (n-2k)!)
     laguerre   L_n^a = SUM_i (-1)^i (a+i+1)_(n-i) / ((n-i)! i!) x^i
     dickson    D_n(x,a) = SUM_i n/(n-i) C(n-i,i) (-a)^i x^(n-2i) (D_0 = 2);  E_n(x,a) = SUM_i C(n-i,i) (-a)^i x^(n-2i)
     zernike    R_n^m(r) = SUM_k (-1)^k (n-k)! / (k! ((n+m)/2-k)! ((n-m)/2-k)!) r^(n-2k), norm^2 = 2(n+1)/(1+[m=0])
     qcon       r^4 P_n^(0,4)(2r^2-1)
   Derivatives are the FORMAL derivatives of these coefficient lists.  TLC checks on the model: orthogonality of every
   pair of orders and the norm under the family's weight through exact moments (Jacobi family, Zernike radial part),
   the Chebyshev explicit forms against their Jacobi characterisation, the boundary values P_n(1).  The values and
   derivative values at a menu of rational points are exported for the conformance replay.                              *)
EXTENDS Integers, Sequences, FiniteSets, TLC, Json, Rat, ModQ

CONSTANTS Cases,       \* set of records [fam, a, b] ; a, b rationals <<num, den>> (family parameters; unused ones <<0,1>>)
          MaxN,        \* orders 0..MaxN
          UnitPts, RadPts, RealPts, PosPts,     \* rational evaluation points per domain
          EmitOn

VARIABLES cs, n, done
vars == <<cs, n, done>>

Pt(x) == MRat(x[1], x[2])
RI(k) == <<k, 1>>
Half == <<1, 2>>
\* generalized binomial-like pieces
Choose(nn, k) == MDiv(MFact(nn), MMul(MFact(k), MFact(nn - k)))
Sign(k) == IF k % 2 = 0 THEN MOne ELSE MNeg(MOne)

---------------------------------------------------------------------------
(* coefficient lists (lowest power first) in the family's own variable *)
JacPoly(nn, a, b) ==        \* in t = (x - 1)/2
   [l1 \in 1..(nn + 1) |-> LET l == l1 - 1 IN
       MDiv(MMul(MRise(RAdd(RAdd(a, b), RI(nn + 1)), l), MRise(RAdd(a, RI(l + 1)), nn - l)), MMul(MFact(l), MFact(nn - l)))]
\* polynomials in x with only powers n, n-2, ... : Term(k) is the coefficient of x^(n-2k)
Sparse(nn, Term(_)) == [i1 \in 1..(nn + 1) |-> LET p == i1 - 1 IN
                          IF (nn - p) % 2 = 0 /\ p <= nn THEN Term((nn - p) \div 2) ELSE MZero]
ChebT(nn) == IF nn = 0 THEN <<MOne>>
             ELSE Sparse(nn, LAMBDA k : MMul(MMul(Sign(k), MDiv(MMul(MQ(nn), MFact(nn - k - 1)), MMul(MQ(2), MMul(MFact(k), MFact(nn - 2 * k))))), MPow(MQ(2), nn - 2 * k)))
ChebU(nn) == IF nn < 0 THEN << >> ELSE Sparse(nn, LAMBDA k : MMul(MMul(Sign(k), Choose(nn - k, k)), MPow(MQ(2), nn - 2 * k)))
ChebV(nn) == PAddQ(ChebU(nn), PScaleQ(MNeg(MOne), ChebU(nn - 1)))
ChebW(nn) == PAddQ(ChebU(nn), ChebU(nn - 1))
HermHe(nn) == Sparse(nn, LAMBDA k : MMul(Sign(k), MDiv(MFact(nn), MMul(MMul(MFact(k), MFact(nn - 2 * k)), MPow(MQ(2), k)))))
HermH(nn)  == Sparse(nn, LAMBDA k : MMul(MMul(Sign(k), MDiv(MFact(nn), MMul(MFact(k), MFact(nn - 2 * k)))), MPow(MQ(2), nn - 2 * k)))
Lag(nn, a) == [i1 \in 1..(nn + 1) |-> LET i == i1 - 1 IN
                 MMul(Sign(i), MDiv(MRise(RAdd(a, RI(i + 1)), nn - i), MMul(MFact(nn - i), MFact(i))))]
Dick1(nn, a) == IF nn = 0 THEN <<MQ(2)>>
                ELSE Sparse(nn, LAMBDA i : MMul(MMul(MRat(nn, nn - i), Choose(nn - i, i)), MPow(MNeg(Pt(a)), i)))
Dick2(nn, a) == Sparse(nn, LAMBDA i : MMul(Choose(nn - i, i), MPow(MNeg(Pt(a)), i)))
ZernR(nn, m) == Sparse(nn, LAMBDA k : IF k <= (nn - m) \div 2
                                      THEN MMul(Sign(k), MDiv(MFact(nn - k), MMul(MFact(k), MMul(MFact(((nn + m) \div 2) - k), MFact(((nn - m) \div 2) - k)))))
                                      ELSE MZero)

\* the variable of the coefficient list as a function of the evaluation point, and d(variable)/dx
VarOf(fam, x) == IF fam \in {"jacobi", "legendre"} THEN RMul(RSub(x, RI(1)), Half) ELSE x
DVar(fam) == IF fam \in {"jacobi", "legendre"} THEN Half ELSE RI(1)

Coefs(c, nn) ==
  CASE c.fam = "jacobi"     -> JacPoly(nn, c.a, c.b)
    [] c.fam = "legendre"   -> JacPoly(nn, RI(0), RI(0))
    [] c.fam = "cheby1"     -> ChebT(nn)
    [] c.fam = "cheby2"     -> ChebU(nn)
    [] c.fam = "cheby3"     -> ChebV(nn)
    [] c.fam = "cheby4"     -> ChebW(nn)
    [] c.fam = "hermite_He" -> HermHe(nn)
    [] c.fam = "hermite_H"  -> HermH(nn)
    [] c.fam = "laguerre"   -> Lag(nn, c.a)
    [] c.fam = "dickson1"   -> Dick1(nn, c.a)
    [] c.fam = "dickson2"   -> Dick2(nn, c.a)
    [] c.fam = "zernike"    -> ZernR(nn, c.a[1])
    [] c.fam = "power"      -> [i1 \in 1..(nn + 1) |-> IF i1 = nn + 1 THEN MOne ELSE MZero]      \* x^n : XY and Hopkins terms are products of these
    [] OTHER                -> << >>

Value(c, nn, x) ==
  IF c.fam = "qcon" THEN LET r2 == RMul(x, x) IN
        MMul(Pt(RMul(r2, r2)), PEvalQ(JacPoly(nn, RI(0), RI(4)), Pt(RSub(r2, RI(1)))))          \* t = ((2r^2-1)-1)/2 = r^2-1
  ELSE PEvalQ(Coefs(c, nn), Pt(VarOf(c.fam, x)))
Deriv(c, nn, x) ==
  IF c.fam = "qcon" THEN LET r2 == RMul(x, x)  t == Pt(RSub(r2, RI(1)))  p == JacPoly(nn, RI(0), RI(4)) IN
        \* d/dr [ r^4 P(t(r)) ] = 4 r^3 P + r^4 P'(t) 2r
        MAdd(MMul(Pt(RMul(RI(4), RMul(r2, x))), PEvalQ(p, t)), MMul(Pt(RMul(RI(2), RMul(RMul(r2, r2), x))), PEvalQ(PDerQ(p), t)))
  ELSE MMul(Pt(DVar(c.fam)), PEvalQ(PDerQ(Coefs(c, nn)), Pt(VarOf(c.fam, x))))

Domain(fam) == IF fam \in {"hermite_He", "hermite_H", "dickson1", "dickson2", "power"} THEN RealPts
               ELSE IF fam = "laguerre" THEN PosPts
               ELSE IF fam \in {"zernike", "qcon"} THEN RadPts ELSE UnitPts

---------------------------------------------------------------------------
(* exact inner products *)
DotMoments(p, Mu(_)) == LET S[i \in 0..Len(p)] == IF i = 0 THEN MZero ELSE MAdd(S[i - 1], MMul(p[i], Mu(i - 1))) IN S[Len(p)]
\* Jacobi weight, normalised to total mass 1, moments of t^k, t = (x-1)/2 :  (-1)^k (a+1)_k / (a+b+2)_k
JacMu(a, b, k) == MMul(Sign(k), MDiv(MRise(RAdd(a, RI(1)), k), MRise(RAdd(RAdd(a, b), RI(2)), k)))
JacInner(nn, mm, a, b) == DotMoments(PMulQ(JacPoly(nn, a, b), JacPoly(mm, a, b)), LAMBDA k : JacMu(a, b, k))
JacNorm(nn, a, b) == IF nn = 0 THEN MOne
                     ELSE MDiv(MMul(MRise(RAdd(a, RI(1)), nn), MRise(RAdd(b, RI(1)), nn)),
                               MMul(MMul(Pt(RAdd(RAdd(a, b), RI(2 * nn + 1))), MFact(nn)), MRise(RAdd(RAdd(a, b), RI(2)), nn - 1)))
\* Zernike radial parts under r dr on [0,1]: moment of r^k is 1/(k+2)
ZernInner(nn, mm, m) == DotMoments(PMulQ(ZernR(nn, m), ZernR(mm, m)), LAMBDA k : MRat(1, k + 2))

JacParams(c) == CASE c.fam = "jacobi" -> <<c.a, c.b>>
                  [] c.fam = "legendre" -> <<RI(0), RI(0)>>
                  [] c.fam = "cheby1" -> <<<<0 - 1, 2>>, <<0 - 1, 2>>>>
                  [] c.fam = "cheby2" -> <<Half, Half>>
                  [] c.fam = "cheby3" -> <<<<0 - 1, 2>>, Half>>
                  [] c.fam = "cheby4" -> <<Half, <<0 - 1, 2>>>>
                  [] OTHER -> <<RI(0), RI(0)>>
IsJacFam(c) == c.fam \in {"jacobi", "legendre", "cheby1", "cheby2", "cheby3", "cheby4"}

Orthogonal == (done /\ IsJacFam(cs)) =>
   LET a == JacParams(cs)[1]  b == JacParams(cs)[2] IN
   /\ \A mm \in 0..(n - 1) : JacInner(n, mm, a, b) = MZero
   /\ JacInner(n, n, a, b) = JacNorm(n, a, b)
\* the explicit Chebyshev sums are the Jacobi polynomials of their parameters, normalised at x = 1 to 1, n+1, 1, 2n+1
ChebyIsJacobi == (done /\ cs.fam \in {"cheby1", "cheby2", "cheby3", "cheby4"}) =>
   LET a == JacParams(cs)[1]  b == JacParams(cs)[2]
       jac == [fam |-> "jacobi", a |-> a, b |-> b]
       end == CASE cs.fam = "cheby1" -> MOne [] cs.fam = "cheby2" -> MQ(n + 1) [] cs.fam = "cheby3" -> MOne [] OTHER -> MQ(2 * n + 1) IN
   /\ Value(cs, n, RI(1)) = end
   /\ \A x \in UnitPts : MMul(Value(cs, n, x), Value(jac, n, RI(1))) = MMul(Value(jac, n, x), end)
ZernikeOrtho == (done /\ cs.fam = "zernike") =>
   LET m == cs.a[1] IN
   /\ \A mm \in 0..(n - 1) : ((mm >= m /\ (mm - m) % 2 = 0) => ZernInner(n, mm, m) = MZero)
   /\ ZernInner(n, n, m) = MRat(1, 2 * (n + 1))                  \* hence unit RMS over the disk with norm^2 = 2(n+1)/(1+[m=0])
   /\ Value(cs, n, RI(1)) = MOne                                  \* R_n^m(1) = 1

ValidOrder(c, nn) == IF c.fam = "zernike" THEN nn >= c.a[1] /\ (nn - c.a[1]) % 2 = 0 ELSE TRUE
Init == /\ cs \in Cases /\ n \in {k \in 0..MaxN : ValidOrder(cs, k)} /\ done = FALSE
Compute == done = FALSE /\ done' = TRUE /\ UNCHANGED <<cs, n>>
Next == Compute
Spec == Init /\ [][Next]_vars

PtsSeq(S) == LET RECURSIVE H(_, _)
                 H(T, acc) == IF T = {} THEN acc ELSE LET x == CHOOSE y \in T : \A z \in T : RLeq(y, z) IN H(T \ {x}, Append(acc, x))
             IN H(S, << >>)
Rec == LET pts == PtsSeq(Domain(cs.fam)) IN
       [fam |-> cs.fam, a |-> cs.a, b |-> cs.b, n |-> n, pts |-> pts,
        vals |-> [i \in 1..Len(pts) |-> Value(cs, n, pts[i])],
        ders |-> [i \in 1..Len(pts) |-> Deriv(cs, n, pts[i])]]
Emit == (EmitOn /\ done) => PrintT(<<"EMIT", ToJson(Rec)>>)
=============================================================================

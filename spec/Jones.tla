-------------------------------- MODULE Jones --------------------------------
(* C20 -- Jones and Mueller calculus preserve the algebra of polarisation optics.

   Exact arithmetic in Q(i): a number is a pair <<re, im>> of ModQ rationals.  Orientations and retardances come from a
   Pythagorean menu: an angle is given by its rational (cos, sin); a retardance delta is given by the (cos, sin) of
   delta/2, so that exp(i delta), cos(delta/2) and sin(delta/2) are all rational.  Elements:

     rotation R(t) = [[c, s], [-s, c]]          linear retarder  R(-t) diag(1, e^{i delta}) R(t)
     diattenuator R(-t) diag(1, alpha) R(t)     polariser = diattenuator with alpha = 0, HWP delta = pi, QWP delta = pi/2
     vortex retarder (charge q, azimuth t, retardance delta, rotation r):
          R(-r) ( -i cos(delta/2) I + sin(delta/2) [[cos qt, sin qt], [sin qt, -cos qt]] ) R(r)
     Mueller  M(J) = U (conj(J) (x) J) U^H ,  U = 2^(-1/2) [[1,0,0,1],[1,0,0,-1],[0,1,1,0],[0,i,-i,0]]  (the 1/2 is rational)
     Pauli coefficients c0..c3 with  J = SUM c_k sigma_k

   TLC checks: retarders (incl. the vortex retarder for EVERY retardance of the menu) are unitary; polarisers are idempotent
   and obey Malus' law; rotating an element = conjugating with the rotation matrix; M(J1 J2) = M(J1) M(J2); a unitary J has an
   orthogonal M with M00 = 1; the Pauli coefficients reconstruct J.  Variant "vvr-pinned" (the (1,1) entry of the
   -i cos(delta/2) I term never written) must violate Unitary.                                                         *)
EXTENDS Integers, Sequences, FiniteSets, TLC, Json, Rat, ModQ, Gauss

CONSTANTS Angles,      \* set of <<<<cn, cd>>, <<sn, sd>>>> rational (cos, sin)
          RAngles,     \* rotations applied to the vortex retarder
          HalfRets,    \* retardances, given by the (cos, sin) of delta / 2
          Alphas,      \* diattenuations <<n, d>> in [0, 1]
          Charges, Arbitrary, Variant, EmitOn

VARIABLES el, done,
          jm, mu      \* the element's Jones and Mueller matrices, computed ONCE by the Compute step
vars == <<el, done, jm, mu>>

\* ---- angles
Cs(a) == GQ(a[1])
Sn(a) == GQ(a[2])
NegA(a) == <<a[1], <<0 - a[2][1], a[2][2]>>>>
\* e^{i a} and its integer powers (multiple angles)
Phasor(a) == G(MRat(a[1][1], a[1][2]), MRat(a[2][1], a[2][2]))
RECURSIVE GPow(_, _)
GPow(g, k) == IF k = 0 THEN GOne ELSE GMul(g, GPow(g, k - 1))
Rot(a) == Mat2(Cs(a), Sn(a), GNeg(Sn(a)), Cs(a))
Conjugated(core, a) == MatMul(MatMul(Rot(NegA(a)), core, 2), Rot(a), 2)
\* retardance from its half angle h: e^{i delta} = (e^{i h})^2
ExpRet(h) == GPow(Phasor(h), 2)
Retarder(h, a) == Conjugated(Mat2(GOne, GZero, GZero, ExpRet(h)), a)
Diatten(al, a) == Conjugated(Mat2(GOne, GZero, GZero, GQ(al)), a)
Quarter == <<<<1, 1>>, <<1, 1>>>>            \* placeholder key: the QWP phasor e^{i pi/2} = i is set directly
QWP(a) == Conjugated(Mat2(GOne, GZero, GZero, GI), a)
HWP(a) == Conjugated(Mat2(GOne, GZero, GZero, GNeg(GOne)), a)
Vvr(q, t, h, r) ==
  LET ph == GPow(Phasor(t), q)                       \* cos qt + i sin qt
      c == G(ph[1], MZero)  s == G(ph[2], MZero)
      ch == GQ(h[1])  sh == GQ(h[2])
      jc == GMul(GNeg(GI), ch)
      lhs == MScal(sh, Mat2(c, s, s, GNeg(c)), 2)
      rhs == IF Variant = "vvr-pinned" THEN Mat2(jc, GZero, GZero, GZero) ELSE Mat2(jc, GZero, GZero, jc) IN
  Conjugated(MAddM(lhs, rhs, 2), r)

\* ---- Mueller
A4 == <<<<GOne, GZero, GZero, GOne>>, <<GOne, GZero, GZero, GNeg(GOne)>>, <<GZero, GOne, GOne, GZero>>, <<GZero, GI, GNeg(GI), GZero>>>>
Kron(Aa, Bb) == TLCEval([i \in 1..4 |-> [j \in 1..4 |-> GMul(Aa[((i - 1) \div 2) + 1][((j - 1) \div 2) + 1], Bb[((i - 1) % 2) + 1][((j - 1) % 2) + 1])]])
ConjM(Jx) == TLCEval([i \in 1..2 |-> [j \in 1..2 |-> GConj(Jx[i][j])]])
Mueller(J) == MScal(GQ(<<1, 2>>), MatMul(MatMul(A4, Kron(ConjM(J), J), 4), Herm(A4, 4), 4), 4)
\* ---- Pauli
Pauli(k) == CASE k = 0 -> Mat2(GOne, GZero, GZero, GOne)
              [] k = 1 -> Mat2(GOne, GZero, GZero, GNeg(GOne))
              [] k = 2 -> Mat2(GZero, GOne, GOne, GZero)
              [] OTHER -> Mat2(GZero, GNeg(GI), GI, GZero)
PauliC(J) == <<GHalf(GAdd(J[1][1], J[2][2])), GHalf(GSub(J[1][1], J[2][2])), GHalf(GAdd(J[1][2], J[2][1])), GMul(GI, GHalf(GSub(J[1][2], J[2][1])))>>

\* ---- the element under examination
GInt(z) == G(MQ(z[1]), MQ(z[2]))
ArbMat(e) == Mat2(GInt(e[1]), GInt(e[2]), GInt(e[3]), GInt(e[4]))
Build(e) == CASE e.k = "rotation"   -> Rot(e.t)
              [] e.k = "retarder"   -> Retarder(e.h, e.t)
              [] e.k = "hwp"        -> HWP(e.t)
              [] e.k = "qwp"        -> QWP(e.t)
              [] e.k = "diattenuator" -> Diatten(e.al, e.t)
              [] e.k = "polarizer"  -> Diatten(<<0, 1>>, e.t)
              [] e.k = "vvr"        -> Vvr(e.q, e.t, e.h, e.r)
              [] OTHER              -> ArbMat(e.m)
IsRetarder(e) == e.k \in {"rotation", "retarder", "hwp", "qwp", "vvr"}
Elements ==
     [k : {"rotation", "hwp", "qwp", "polarizer"}, t : Angles, h : {<<<<1, 1>>, <<0, 1>>>>}, al : {<<0, 1>>}, q : {1}, r : {<<<<1, 1>>, <<0, 1>>>>}, m : {<< >>}]
\cup [k : {"retarder"}, t : Angles, h : HalfRets, al : {<<0, 1>>}, q : {1}, r : {<<<<1, 1>>, <<0, 1>>>>}, m : {<< >>}]
\cup [k : {"diattenuator"}, t : Angles, h : {<<<<1, 1>>, <<0, 1>>>>}, al : Alphas, q : {1}, r : {<<<<1, 1>>, <<0, 1>>>>}, m : {<< >>}]
\cup [k : {"vvr"}, t : Angles, h : HalfRets, al : {<<0, 1>>}, q : Charges, r : RAngles, m : {<< >>}]
\cup [k : {"arbitrary"}, t : {<<<<1, 1>>, <<0, 1>>>>}, h : {<<<<1, 1>>, <<0, 1>>>>}, al : {<<0, 1>>}, q : {1}, r : {<<<<1, 1>>, <<0, 1>>>>}, m : Arbitrary]

Init == el \in Elements /\ done = FALSE /\ jm = << >> /\ mu = << >>
Compute == /\ done = FALSE /\ done' = TRUE /\ UNCHANGED el
           /\ jm' = Build(el) /\ mu' = Mueller(jm')          \* (a LET here would be re-evaluated at every use)
Next == Compute
Spec == Init /\ [][Next]_vars

J == jm
Unitary == (done /\ IsRetarder(el)) => MatMul(Herm(J, 2), J, 2) = Ident(2)
Idempotent == (done /\ el.k = "polarizer") =>
   /\ MatMul(J, J, 2) = J
   \* Malus: intensity of linearly polarised light at angle p through a polariser at angle t is cos^2(t - p)
   /\ \A p \in Angles :
        LET v1 == GAdd(GMul(J[1][1], Cs(p)), GMul(J[1][2], Sn(p)))
            v2 == GAdd(GMul(J[2][1], Cs(p)), GMul(J[2][2], Sn(p)))
            inten == GAdd(GMul(v1, GConj(v1)), GMul(v2, GConj(v2)))
            cdiff == GAdd(GMul(Cs(el.t), Cs(p)), GMul(Sn(el.t), Sn(p))) IN
        inten = GMul(cdiff, cdiff)
RotationLaw == (done /\ el.k \in {"retarder", "diattenuator", "hwp", "qwp", "polarizer"}) =>
   J = Conjugated(Build([el EXCEPT !.t = <<<<1, 1>>, <<0, 1>>>>]), el.t)
MuellerOfUnitary == (done /\ IsRetarder(el)) =>
   LET M == mu IN
   /\ MatMul(Transp(M, 4), M, 4) = Ident(4)
   /\ M[1][1] = GOne
   /\ \A i \in 1..4, j \in 1..4 : M[i][j][2] = MZero                    \* real
\* constant-level tables (evaluated once): the arbitrary Gaussian-integer matrices and their Mueller matrices
ArbJ == TLCEval([m2 \in Arbitrary |-> ArbMat(m2)])
ArbMu == TLCEval([m2 \in Arbitrary |-> Mueller(ArbMat(m2))])
Homomorphism == done => \A m2 \in Arbitrary :
   /\ Mueller(MatMul(J, ArbJ[m2], 2)) = MatMul(mu, ArbMu[m2], 4)
   /\ Mueller(MatMul(ArbJ[m2], J, 2)) = MatMul(ArbMu[m2], mu, 4)
PauliLaw == done =>
   LET c == PauliC(J) IN
   MAddM(MAddM(MScal(c[1], Pauli(0), 2), MScal(c[2], Pauli(1), 2), 2), MAddM(MScal(c[3], Pauli(2), 2), MScal(c[4], Pauli(3), 2), 2), 2) = J

Rec == [el |-> el, J |-> J, M |-> mu, pauli |-> PauliC(J)]
Emit == (EmitOn /\ done) => PrintT(<<"EMIT", ToJson(Rec)>>)
=============================================================================

-------------------------- MODULE ExecutorsTrace --------------------------
(* Trace validation for Executors: recorded executions of the real mdft / czt / config.precision are
   accepted iff they are behaviours of the specification.  One JVM validates a whole batch: the batch file
   is a JSON array of traces, Init picks a trace id, and an accepted trace prints <<"ACCEPT", tid>>.
   Logged per event: action name, abstract key, precision argument, the observed accuracy class of the
   returned numbers (64 / 32 / 0 = wrong) and whether nbytes() of each executor was zero afterwards.
   The caches themselves are never logged: TLC reconstructs them through the specification's actions.    *)
EXTENDS Executors, IOUtils

VARIABLES tid, l
tvars == <<vars, tid, l>>

Traces == JsonDeserialize(IOEnv.TRACE_FILE)
T == Traces[tid]

TraceInit == Init /\ tid \in 1..Len(Traces) /\ l = 1

Act(e) == CASE e.a = "prec"           -> SetPrecision(e.p)
            [] e.a = "dft2"           -> Dft2(e.k)
            [] e.a = "idft2"          -> Idft2(e.k)
            [] e.a = "dft2_backprop"  -> Dft2Backprop(e.k)
            [] e.a = "idft2_backprop" -> Idft2Backprop(e.k)
            [] e.a = "czt2"           -> Czt2(e.k)
            [] e.a = "iczt2"          -> Iczt2(e.k)
            [] e.a = "clear_mdft"     -> ClearM
            [] e.a = "clear_czt"      -> ClearZ
            [] OTHER                  -> FALSE

IsCall(e) == e.a \notin {"prec", "clear_mdft", "clear_czt"}

TraceNext ==
  /\ l <= Len(T)
  /\ LET e == T[l] IN
       /\ Act(e)
       /\ IsCall(e) => e.cls >= last'.cls          \* at least as accurate as the configured precision demands
       /\ (cacheM' = {}) <=> e.nM0                 \* hidden cache bound to the observable nbytes()
       /\ (cacheZ' = {}) <=> e.nZ0
       /\ precision' = e.prec                      \* config.precision as read back after the event
  /\ l' = l + 1 /\ tid' = tid

TraceSpec == TraceInit /\ [][TraceNext]_tvars

Accept == (l = Len(T) + 1) => PrintT(<<"ACCEPT", tid>>)
Progress == PrintT(<<"AT", tid, l>>)
=============================================================================

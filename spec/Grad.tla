-------------------------------- MODULE Grad --------------------------------
(* C06 (non-linear part) -- activation, encoder, cost, intensity and phase nodes return the true gradient.

   Exact arithmetic: every number is a rational carried as ModQ residues; a DUAL number <<v, d>> carries a value and its
   derivative along one direction, so that evaluating a node on dual inputs yields its exact directional derivative
   (forward-mode differentiation) -- the independent definition against which each node's closed-form reverse-mode result
   is checked.  Transcendental functions enter only through
        exp      on the LN-RATIONAL family: the node is given u = exp(a (x - x0)) as a rational, d u / d x = a u
        ln, atan as formal tags with the rules  d ln(g) = dg / g ,  d atan(g) = dg / (1 + g^2)
        phasors  c + i s with rational (c, s), c^2 + s^2 = 1, d(c + i s)/d theta = -s + i c
   Modes
     "act"      Sigmoid, Tanh, Softplus, Arctan with parameters (a, x0, y0): forward value and backprop(x) = f'(x)
     "softmax"  a NODE WITH MEMORY: Forward(k) stores the output of input k, Backprop(g) uses the stored output.  Histories of
                forward calls followed by one backprop are explored; the result must be the vector-Jacobian product at the
                LAST forward input (Softmax, GumbelSoftmax with temperature tau, DiscreteEncoder with levels)
     "cost"     mean_square_error, bias_and_gain_invariant_error, negative_loglikelihood (masked and unmasked): (cost, gradient)
     "field"    intensity |E|^2 with Gbar = 2 Ibar E;  phase of A exp(i k phi) with phibar = k Im(Pbar conj(P))
   Variants (must violate): "bgi-array-bias" (the pinned bias (D - alpha I)/N taken per sample), "stale-forward"
   (backprop uses the FIRST stored forward).                                                                          *)
EXTENDS Integers, Sequences, FiniteSets, TLC, Json, ModQ

CONSTANTS Mode, Cases, Variant, EmitOn
VARIABLES cs, done, hist, saved,
          pre        \* residues of the case's rationals, converted ONCE by the Compute step (state-level definitions are re-evaluated at every use)
vars == <<cs, done, hist, saved, pre>>

Q(r) == MRat(r[1], r[2])
MTwo == MQ(2)
DC(c) == <<c, MZero>>
DAdd(a, b) == <<MAdd(a[1], b[1]), MAdd(a[2], b[2])>>
DSub(a, b) == <<MSub(a[1], b[1]), MSub(a[2], b[2])>>
DMul(a, b) == <<MMul(a[1], b[1]), MAdd(MMul(a[1], b[2]), MMul(a[2], b[1]))>>
DDiv(a, b) == <<MDiv(a[1], b[1]), MDiv(MSub(MMul(a[2], b[1]), MMul(a[1], b[2])), MMul(b[1], b[1]))>>
RECURSIVE DSumSeq(_, _)
DSumSeq(s, k) == IF k = 0 THEN DC(MZero) ELSE DAdd(DSumSeq(s, k - 1), s[k])
RECURSIVE MSumSeq(_, _)
MSumSeq(s, k) == IF k = 0 THEN MZero ELSE MAdd(MSumSeq(s, k - 1), s[k])

-----------------------------------------------------------------------------
\* ---- activations.  cs = [f, a, x0, y0, u, pw]  (u = exp(a x') for sigmoid / softplus, exp(2 a x') for tanh, x' itself for arctan)
A == Q(cs.a)
U == MPow(Q(cs.u), cs.pw)                 \* u = base^pw: deep saturation (u = 10^16) without leaving 32-bit integers
\* forward values: a rational, or a tagged transcendental plus a rational
ActFwd == CASE cs.f = "sigmoid" -> [tag |-> "rat", arg |-> MZero, add |-> MAdd(MDiv(U, MAdd(MOne, U)), Q(cs.y0))]
            [] cs.f = "tanh" -> [tag |-> "rat", arg |-> MZero, add |-> MAdd(MDiv(MSub(U, MOne), MAdd(U, MOne)), Q(cs.y0))]
            [] cs.f = "softplus" -> [tag |-> "ln", arg |-> MAdd(MOne, U), add |-> Q(cs.y0)]
            [] OTHER -> [tag |-> "atan", arg |-> MMul(A, U), add |-> Q(cs.y0)]
\* the closed forms the nodes return from backprop(x)
Sig == MDiv(U, MAdd(MOne, U))
Tnh == MDiv(MSub(U, MOne), MAdd(U, MOne))
ActBack == CASE cs.f = "sigmoid" -> MMul(A, MMul(Sig, MSub(MOne, Sig)))
             [] cs.f = "tanh" -> MMul(A, MSub(MOne, MMul(Tnh, Tnh)))
             [] cs.f = "softplus" -> MMul(A, MDiv(MOne, MAdd(MOne, MDiv(MOne, U))))          \* a / (1 + exp(-a x'))
             [] OTHER -> MMul(A, MDiv(MOne, MAdd(MMul(MMul(A, U), MMul(A, U)), MOne)))
\* forward-mode derivative with respect to x
ActDual == CASE cs.f = "sigmoid" -> LET u == <<U, MMul(A, U)>> IN DDiv(u, DAdd(DC(MOne), u))[2]
             [] cs.f = "tanh" -> LET u == <<U, MMul(MMul(MTwo, A), U)>> IN DDiv(DSub(u, DC(MOne)), DAdd(u, DC(MOne)))[2]
             [] cs.f = "softplus" -> LET g == DAdd(DC(MOne), <<U, MMul(A, U)>>) IN MDiv(g[2], g[1])                       \* d ln(g) = dg / g
             [] OTHER -> LET g == <<MMul(A, U), A>> IN MDiv(g[2], MAdd(MOne, MMul(g[1], g[1])))                           \* d atan(g) = dg / (1 + g^2)
ActLaw == (Mode = "act" /\ done) => ActBack = ActDual

-----------------------------------------------------------------------------
\* ---- softmax family.  cs = [kind, tau, levels, inputs: sequence of rows v (v_i = exp((x_i + g_i) / tau) rational), grad: row or scalar]
Tau == Q(cs.tau)
Row(k) == [i \in 1..Len(cs.inputs[k]) |-> Q(cs.inputs[k][i])]
SoftOut(v) == LET tot == MSumSeq(v, Len(v)) IN [i \in 1..Len(v) |-> MDiv(v[i], tot)]
\* closed-form reverse mode on the stored output
SoftBack(out, g) == LET dot == MSumSeq([i \in 1..Len(out) |-> MMul(g[i], out[i])], Len(out)) IN [i \in 1..Len(out) |-> MMul(out[i], MSub(g[i], dot))]
Levels == [i \in 1..Len(cs.levels) |-> Q(cs.levels[i])]
GradRow == [i \in 1..Len(cs.grad) |-> Q(cs.grad[i])]
\* what the node returns for upstream gradient cs.grad given the stored output
NodeBack(out) == CASE cs.kind = "softmax" -> SoftBack(out, GradRow)
                   [] cs.kind = "gumbel" -> [i \in 1..Len(out) |-> MDiv(SoftBack(out, GradRow)[i], Tau)]
                   [] OTHER -> LET inner == SoftBack(out, [i \in 1..Len(out) |-> MMul(GradRow[1], Levels[i])]) IN   \* encoder over gumbel-softmax
                               [i \in 1..Len(out) |-> MDiv(inner[i], Tau)]
NodeFwd(out) == IF cs.kind = "encoder" THEN <<MSumSeq([i \in 1..Len(out) |-> MMul(out[i], Levels[i])], Len(out))>> ELSE out
\* forward-mode: derivative of the node's output(s) along x_j at input k:  d v_j / d x_j = v_j / tau
DualOut(k, j) == LET v == Row(k)
                     dv == [i \in 1..Len(v) |-> <<v[i], IF i = j THEN MDiv(v[i], Tau) ELSE MZero>>]
                     tot == DSumSeq(dv, Len(dv))
                     o == [i \in 1..Len(v) |-> DDiv(dv[i], tot)] IN
                 IF cs.kind = "encoder" THEN <<DSumSeq([i \in 1..Len(v) |-> DMul(o[i], DC(Levels[i]))], Len(v))>> ELSE o
\* vector-Jacobian product at input k: component j = SUM_i grad_i * d out_i / d x_j
TrueVjp(k) == [j \in 1..Len(cs.inputs[k]) |-> LET o == DualOut(k, j) IN MSumSeq([i \in 1..Len(o) |-> MMul(GradRow[i], o[i][2])], Len(o))]
MaxHist == 3
SoftInit == hist = << >> /\ saved = << >>
Forward(k) == /\ Mode = "softmax" /\ ~done /\ Len(hist) < MaxHist
              /\ hist' = Append(hist, k)
              /\ saved' = (IF Variant = "stale-forward" /\ saved # << >> THEN saved ELSE SoftOut(Row(k)))
              /\ UNCHANGED <<cs, done, pre>>
Backprop == /\ Mode = "softmax" /\ ~done /\ hist # << >> /\ done' = TRUE /\ UNCHANGED <<cs, hist, saved, pre>>
HistoryLaw == (Mode = "softmax" /\ done) => NodeBack(saved) = TrueVjp(hist[Len(hist)])
SumsToOne == (Mode = "softmax" /\ saved # << >>) => MSumSeq(saved, Len(saved)) = MOne

-----------------------------------------------------------------------------
\* ---- cost functions.  cs = [kind, m (model / I / y), d (data / D / yhat), mask]  as flat sequences; mask = set of indices (all = no mask)
N == Len(cs.m)
Idx == 1..N
SelOf(c) == IF c.mask = {} THEN 1..Len(c.m) ELSE c.mask
Sel == pre.sel
Cnt == pre.cnt
RECURSIVE MSumSet(_, _), DSumSet(_, _)
MSumSet(f, S) == IF S = {} THEN MZero ELSE LET x == CHOOSE y \in S : TRUE IN MAdd(f[x], MSumSet(f, S \ {x}))
DSumSet(f, S) == IF S = {} THEN DC(MZero) ELSE LET x == CHOOSE y \in S : TRUE IN DAdd(f[x], DSumSet(f, S \ {x}))
Mv == pre.mv
Dv == pre.dv
\* the costs on dual inputs (seed: direction e_j), written from their definitions
DualIn(j) == [i \in Idx |-> <<Mv[i], IF i = j THEN MOne ELSE MZero>>]
MseDual(x) == DDiv(DSumSet([i \in Idx |-> LET e == DSub(x[i], DC(Dv[i])) IN DMul(e, e)], Sel), DC(Cnt))
BgiDual(xx) ==
  LET x == TLCEval(xx)
      mi == TLCEval(DDiv(DSumSet(x, Sel), DC(Cnt)))
      md == TLCEval(MDiv(MSumSet(Dv, Sel), Cnt))
      num == DSumSet([i \in Idx |-> DMul(DSub(x[i], mi), DC(MSub(Dv[i], md)))], Sel)
      den == DSumSet([i \in Idx |-> DMul(DSub(x[i], mi), DSub(x[i], mi))], Sel)
      alpha == TLCEval(DDiv(num, den))
      resid == TLCEval([i \in Idx |-> DSub(DC(Dv[i]), DMul(alpha, x[i]))])
      \* the bias is the mean residual (least-squares offset); the pinned code took (D - alpha I)/N sample by sample
      meanres == TLCEval(DDiv(DSumSet(resid, Sel), DC(Cnt)))
      beta == TLCEval([i \in Idx |-> IF Variant = "bgi-array-bias" THEN DDiv(resid[i], DC(Cnt)) ELSE meanres])
      raw == TLCEval([i \in Idx |-> DSub(DAdd(DMul(alpha, x[i]), beta[i]), DC(Dv[i]))])
      r == TLCEval(MDiv(MOne, MSumSet([i \in Idx |-> MMul(Dv[i], Dv[i])], Sel))) IN
  TLCEval([cost |-> DMul(DC(r), DSumSet([i \in Idx |-> DMul(raw[i], raw[i])], Sel)), alpha |-> alpha, raw |-> raw, r |-> r])
\* negative log-likelihood: cost = -1/N SUM yhat ln(y) + (1 - yhat) ln(1 - y) : a list of <<coefficient, ln argument>> ; d ln(g) = dg / g
NllTerms == [i \in Idx |-> <<<<MDiv(MNeg(Dv[i]), Cnt), Mv[i]>>, <<MDiv(MNeg(MSub(MOne, Dv[i])), Cnt), MSub(MOne, Mv[i])>>>>]
NllDer(j) == MAdd(MDiv(NllTerms[j][1][1], Mv[j]), MNeg(MDiv(NllTerms[j][2][1], MSub(MOne, Mv[j]))))          \* d(1 - y) = -dy
\* closed-form gradients as the library returns them
CostGrad == CASE cs.kind = "mse" -> [i \in Idx |-> IF i \in Sel THEN MDiv(MMul(MTwo, MSub(Mv[i], Dv[i])), Cnt) ELSE MZero]
              [] cs.kind = "bgi" -> LET b == TLCEval(BgiDual([i \in Idx |-> DC(Mv[i])])) IN [i \in Idx |-> IF i \in Sel THEN MMul(MMul(MTwo, b.r), MMul(b.alpha[1], b.raw[i][1])) ELSE MZero]
              [] OTHER -> [i \in Idx |-> IF i \in Sel THEN MDiv(MAdd(MNeg(MDiv(Dv[i], Mv[i])), MDiv(MSub(MOne, Dv[i]), MSub(MOne, Mv[i]))), Cnt) ELSE MZero]
CostValue == CASE cs.kind = "mse" -> MseDual([i \in Idx |-> DC(Mv[i])])[1]
               [] cs.kind = "bgi" -> BgiDual([i \in Idx |-> DC(Mv[i])]).cost[1]
               [] OTHER -> MZero
TrueGrad == [j \in Idx |-> CASE cs.kind = "mse" -> MseDual(DualIn(j))[2]
                              [] cs.kind = "bgi" -> BgiDual(DualIn(j)).cost[2]
                              [] OTHER -> IF j \in Sel THEN NllDer(j) ELSE MZero]
CostLaw == (Mode = "cost" /\ done) => CostGrad = TrueGrad

-----------------------------------------------------------------------------
\* ---- fields.  cs = [kind, e: sequence of <<re, im>> rationals, bar: upstream gradient (reals for intensity; <<re, im>> for phase), amp, k]
Fe == [i \in 1..Len(cs.e) |-> <<Q(cs.e[i][1]), Q(cs.e[i][2])>>]
\* intensity: Gbar = 2 Ibar E ;  directional derivative of |E|^2 along delta (a unit real or imaginary step at sample j)
IntGbar == [i \in 1..Len(cs.e) |-> <<MMul(MMul(MTwo, Q(cs.bar[i])), Fe[i][1]), MMul(MMul(MTwo, Q(cs.bar[i])), Fe[i][2])>>]
IntDual(j, part) == LET re == <<Fe[j][1], IF part = 1 THEN MOne ELSE MZero>>  im == <<Fe[j][2], IF part = 2 THEN MOne ELSE MZero>> IN
                    DAdd(DMul(re, re), DMul(im, im))[2]
\* dJ = SUM Ibar dI  must equal  Re SUM conj(Gbar) delta
IntensityLaw == (Mode = "field" /\ done /\ cs.kind = "intensity") =>
                   \A j \in 1..Len(cs.e) : \A part \in {1, 2} : MMul(Q(cs.bar[j]), IntDual(j, part)) = IntGbar[j][part]
\* phase: P = amp * (c + i s), dP/dphi = k amp (-s + i c);  phibar = Re(conj(Pbar) dP/dphi)  vs the closed form k Im(Pbar conj(P))
Kk == Q(cs.k)
Pv(i) == <<MMul(Q(cs.amp[i]), Fe[i][1]), MMul(Q(cs.amp[i]), Fe[i][2])>>
Pbar(i) == <<Q(cs.bar[i][1]), Q(cs.bar[i][2])>>
PhaseClosed == [i \in 1..Len(cs.e) |-> MMul(Kk, MSub(MMul(Pbar(i)[2], Pv(i)[1]), MMul(Pbar(i)[1], Pv(i)[2])))]        \* k Im(Pbar conj(P))
PhaseTrue == [i \in 1..Len(cs.e) |-> LET dre == MMul(Kk, MNeg(Pv(i)[2]))  dim == MMul(Kk, Pv(i)[1]) IN MAdd(MMul(Pbar(i)[1], dre), MMul(Pbar(i)[2], dim))]
PhaseLaw == (Mode = "field" /\ done /\ cs.kind = "phase") =>
               /\ PhaseClosed = PhaseTrue
               /\ \A i \in 1..Len(cs.e) : MAdd(MMul(Fe[i][1], Fe[i][1]), MMul(Fe[i][2], Fe[i][2])) = MOne

-----------------------------------------------------------------------------
Init == /\ (\E k \in 1..Len(Cases) : cs = Cases[k]) /\ done = FALSE /\ SoftInit /\ pre = << >>
Compute == /\ Mode # "softmax" /\ done = FALSE /\ done' = TRUE /\ UNCHANGED <<cs, hist, saved>>
           /\ pre' = (IF Mode = "cost" THEN [mv |-> [i \in 1..Len(cs.m) |-> Q(cs.m[i])], dv |-> [i \in 1..Len(cs.d) |-> Q(cs.d[i])], sel |-> SelOf(cs), cnt |-> MQ(Cardinality(SelOf(cs)))] ELSE << >>)
Next == Compute \/ Backprop \/ (\E k \in 1..(IF Mode = "softmax" THEN Len(cs.inputs) ELSE 0) : Forward(k))
Spec == Init /\ [][Next]_vars

Rec == CASE Mode = "act" -> [mode |-> "act", cs |-> cs, fwd |-> ActFwd, back |-> ActBack]
         [] Mode = "softmax" -> [mode |-> "softmax", cs |-> cs, hist |-> hist, fwd |-> NodeFwd(saved), back |-> NodeBack(saved)]
         [] Mode = "cost" -> [mode |-> "cost", cs |-> [kind |-> cs.kind, m |-> cs.m, d |-> cs.d, mask |-> [i \in Idx |-> i \in Sel], masked |-> cs.mask # {}],
                              cost |-> CostValue, grad |-> CostGrad, nll |-> IF cs.kind = "nll" THEN [i \in Idx |-> IF i \in Sel THEN NllTerms[i] ELSE << >>] ELSE << >>]
         [] OTHER -> [mode |-> "field", cs |-> cs, gbar |-> IF cs.kind = "intensity" THEN IntGbar ELSE << >>, phibar |-> IF cs.kind = "phase" THEN PhaseClosed ELSE << >>]
Emit == (EmitOn /\ done) => PrintT(<<"EMIT", ToJson(Rec)>>)
=============================================================================

------------------------------- MODULE Cyclo -------------------------------
(* Exact arithmetic in Z[zeta_L]: an element is a count vector c \in [0..L-1 -> Int]
   standing for  SUM_e c[e] * zeta_L^e ,  zeta_L = exp(2 pi i / L).
   IsZero decides equality with 0 exactly: the polynomial SUM c[e] X^e is reduced
   modulo the cyclotomic polynomial Phi_L (computed by exact division of X^L - 1).     *)
EXTENDS Integers, Sequences, FiniteSets

\* polynomials are sequences of integer coefficients, lowest degree first, 1-indexed
RECURSIVE Trim(_)
Trim(p) == IF Len(p) > 0 /\ p[Len(p)] = 0 THEN Trim(SubSeq(p, 1, Len(p) - 1)) ELSE p

PCoef(p, i) == IF i >= 1 /\ i <= Len(p) THEN p[i] ELSE 0
PSubShift(p, q, k, c) ==           \* p - c * X^k * q
  Trim([i \in 1..(IF Len(p) > Len(q) + k THEN Len(p) ELSE Len(q) + k) |-> PCoef(p, i) - c * PCoef(q, i - k)])

\* remainder and quotient by a MONIC polynomial q
RECURSIVE PRem(_, _)
PRem(p, q) == LET tp == Trim(p) IN
  IF Len(tp) < Len(q) THEN tp
  ELSE PRem(PSubShift(tp, q, Len(tp) - Len(q), tp[Len(tp)]), q)

RECURSIVE PQuoAcc(_, _, _)
PQuoAcc(p, q, acc) == LET tp == Trim(p) IN
  IF Len(tp) < Len(q) THEN acc
  ELSE LET k == Len(tp) - Len(q)  c == tp[Len(tp)] IN
       PQuoAcc(PSubShift(tp, q, k, c), q,
               [i \in 1..(IF Len(acc) > k + 1 THEN Len(acc) ELSE k + 1) |-> PCoef(acc, i) + (IF i = k + 1 THEN c ELSE 0)])
PQuo(p, q) == PQuoAcc(p, q, << >>)

XPowMinus1(L) == [i \in 1..(L + 1) |-> IF i = 1 THEN 0 - 1 ELSE IF i = L + 1 THEN 1 ELSE 0]

Divisors(L) == {d \in 1..L : L % d = 0}

\* Phi_L = PROD_{d | L} (X^d - 1)^mu(L/d)   (Moebius inversion: one exact division, no recursion over divisors)
IsPrime(p) == p >= 2 /\ \A k \in 2..(p - 1) : p % k # 0
Mu(n) == IF \E p \in 2..n : n % (p * p) = 0 THEN 0
         ELSE IF Cardinality({p \in 2..n : IsPrime(p) /\ n % p = 0}) % 2 = 0 THEN 1 ELSE 0 - 1
PMul(p, q) == IF p = << >> \/ q = << >> THEN << >>
              ELSE [i \in 1..(Len(p) + Len(q) - 1) |->
                      LET lo == IF i - Len(q) + 1 > 1 THEN i - Len(q) + 1 ELSE 1
                          hi == IF i < Len(p) THEN i ELSE Len(p)
                          S[j \in (lo - 1)..hi] == IF j = lo - 1 THEN 0 ELSE S[j - 1] + p[j] * q[i - j + 1]
                      IN S[hi]]
RECURSIVE PProd(_, _)
PProd(ds, acc) == IF ds = {} THEN acc
                  ELSE LET d == CHOOSE x \in ds : TRUE IN PProd(ds \ {d}, PMul(acc, XPowMinus1(d)))
Phi(L) == PQuo(PProd({d \in Divisors(L) : Mu(L \div d) = 1}, <<1>>),
               PProd({d \in Divisors(L) : Mu(L \div d) = 0 - 1}, <<1>>))

\* c : [0..L-1 -> Int]
AsPoly(c, L) == [i \in 1..L |-> c[i - 1]]
IsZeroWith(c, L, phi) == Trim(PRem(AsPoly(c, L), phi)) = << >>
IsZero(c, L) == IsZeroWith(c, L, Phi(L))
\* equals the rational integer v ?
IsConstWith(c, L, v, phi) == IsZeroWith([e \in 0..(L - 1) |-> IF e = 0 THEN c[e] - v ELSE c[e]], L, phi)

\* count vector of a bag of exponents given as a function  idx -> exponent (mod L)
CountVec(f, L) == [e \in 0..(L - 1) |-> Cardinality({i \in DOMAIN f : f[i] = e})]

Mod(a, L) == ((a % L) + L) % L
=============================================================================

-------------------------------- MODULE QPoly --------------------------------
(* C07 / C09 (Forbes polynomials) -- Qbfs and 2D-Q defined by EXACT Gram-Schmidt, independent of the library's
   f/g/h/F/G recurrences.

   For azimuthal order m = 0 the functions  phi_k(u) = u^2 (1 - u^2) u^(2k),  for m > 0 the functions
   phi_k(u) = u^m u^(2k),  k = 0, 1, ...,  are orthogonalised in that order under Forbes' slope inner product

      m = 0 :  <f, g> = (2/pi) INT_0^1 f'(u) g'(u) (1 - u^2)^(-1/2) du
      m > 0 :  <f, g> = (2/pi) INT_0^1 1/2 ( f' g' + m^2 f g / u^2 ) (1 - u^2)^(-1/2) du

   whose moments are rational:  (2/pi) INT u^(2j) (1-u^2)^(-1/2) du = C(2j, j) / 4^j .  The result is carried as
   (A_n, N_n): the unnormalised orthogonal polynomial A_n in Q[u] (ModQ coefficients) and N_n = <A_n, A_n> in Q;
   the library's polynomial is  sign * A_n / sqrt(N_n)  with the sign rule Q_n^m(0) > 0, evaluated by the harness.
   TLC checks orthogonality of every pair, and the calibration against the two closed forms Forbes gives:
   Qbfs_0 = u^2 - u^4 (N_0 = 1) and Q_0^m = u^m / (2 sqrt(F(0,m))), i.e. N_0 = m^2 C(2m-2, m-1) / 4^(m-1).          *)
EXTENDS Integers, Sequences, FiniteSets, TLC, Json, Rat, ModQ

CONSTANTS Ms, MaxN, RadPts, EmitOn
VARIABLES m, basis
vars == <<m, basis>>

Choose(nn, k) == MDiv(MFact(nn), MMul(MFact(k), MFact(nn - k)))
Pt(x) == MRat(x[1], x[2])
RECURSIVE PDerN(_, _)
PDerN(p, j) == IF j = 0 THEN p ELSE PDerN(PDerQ(p), j - 1)
Mu(j) == MDiv(Choose(2 * j, j), MPow(MQ(4), j))                     \* moment of u^(2j)
MuTab == [j \in 0..48 |-> Mu(j)]                                      \* constant: evaluated once
Mono(d) == [i \in 1..(d + 1) |-> IF i = d + 1 THEN MOne ELSE MZero]   \* u^d
Phi(mm, k) == IF mm = 0 THEN PAddQ(Mono(2 * k + 2), PScaleQ(MNeg(MOne), Mono(2 * k + 4))) ELSE Mono(mm + 2 * k)
\* SUM over even powers of a polynomial against the moments; odd powers must not occur
EvenMoments(p) == LET S[i \in 0..Len(p)] == IF i = 0 THEN MZero
                                           ELSE IF (i - 1) % 2 = 0 THEN MAdd(S[i - 1], MMul(p[i], MuTab[(i - 1) \div 2])) ELSE S[i - 1]
                  IN S[Len(p)]
OddFree(p) == \A i \in 1..Len(p) : (i - 1) % 2 = 1 => p[i] = MZero
DivU2(p) == IF Len(p) <= 2 THEN << >> ELSE [i \in 1..(Len(p) - 2) |-> p[i + 2]]          \* p / u^2 (p has no u^0, u^1 terms)
Inner(mm, f, g) == IF mm = 0 THEN EvenMoments(PMulQ(PDerQ(f), PDerQ(g)))
                   ELSE MMul(MRat(1, 2), MAdd(EvenMoments(PMulQ(PDerQ(f), PDerQ(g))), MScale(mm * mm, EvenMoments(DivU2(PMulQ(f, g))))))

\* Gram-Schmidt as a step machine: `basis` holds <<A_k, N_k>> for the orders computed so far (no recomputation)
\* returns <<A, gamma>>: the projected polynomial in u and its coefficients in the phi basis ( A = SUM_k gamma_k phi_k,
\* so that  A(u) = u^2 (1 - u^2) q(x)  (m = 0)  or  u^m q(x)  (m > 0)  with  q(x) = SUM_k gamma_k x^k,  x = u^2 )
Unit(k) == [i \in 1..(k + 1) |-> IF i = k + 1 THEN MOne ELSE MZero]
Project(mm, phi, bs) == LET P[j \in 0..Len(bs)] ==
                              IF j = 0 THEN <<phi, Unit(Len(bs))>>
                              ELSE LET c == MNeg(MDiv(Inner(mm, phi, bs[j][1]), bs[j][2])) IN
                                   <<PAddQ(P[j - 1][1], PScaleQ(c, bs[j][1])), PAddQ(P[j - 1][2], PScaleQ(c, bs[j][3]))>>
                        IN P[Len(bs)]

Init == m \in Ms /\ basis = << >>
Step == /\ Len(basis) <= MaxN
        /\ LET pr == Project(m, Phi(m, Len(basis)), basis) IN basis' = Append(basis, <<pr[1], Inner(m, pr[1], pr[1]), pr[2]>>)
        /\ UNCHANGED m
Next == Step
Spec == Init /\ [][Next]_vars

n == Len(basis) - 1                                                     \* order of the newest polynomial
Orthogonal == Len(basis) > 0 =>
   /\ \A j \in 1..(Len(basis) - 1) : Inner(m, basis[Len(basis)][1], basis[j][1]) = MZero
   /\ MIsUnit(basis[Len(basis)][2])                                      \* positive-definite: no zero norm
   /\ OddFree(PMulQ(PDerQ(basis[Len(basis)][1]), PDerQ(basis[Len(basis)][1])))
GammaConsistent == Len(basis) > 0 =>          \* A = prefix * q(u^2), checked at a point: u = 1/2
   LET e == basis[Len(basis)]  u == <<1, 2>>  xx == <<1, 4>> IN
   PEvalQ(e[1], Pt(u)) = MMul(IF m = 0 THEN Pt(RMul(xx, RSub(<<1, 1>>, xx))) ELSE MPow(Pt(u), m), PEvalQ(e[3], Pt(xx)))
Calibrated == Len(basis) > 0 =>
   IF m = 0 THEN basis[1][2] = MOne ELSE basis[1][2] = MDiv(MScale(m * m, Choose(2 * m - 2, m - 1)), MPow(MQ(4), m - 1))

PtsSeq(S) == LET RECURSIVE H(_, _)
                 H(T, acc) == IF T = {} THEN acc ELSE LET x == CHOOSE y \in T : \A z \in T : RLeq(y, z) IN H(T \ {x}, Append(acc, x))
             IN H(S, << >>)
Rec == LET a == basis[Len(basis)][1]  pts == PtsSeq(RadPts) IN
       [fam |-> IF m = 0 THEN "qbfs" ELSE "q2d", m |-> m, n |-> n, pts |-> pts, normsq |-> basis[Len(basis)][2],
        lead |-> a[(IF m = 0 THEN 2 ELSE m) + 1],                          \* coefficient of u^2 (m = 0) or u^m : its sign fixes Q(0) > 0
        vals |-> [i \in 1..Len(pts) |-> PEvalQ(a, Pt(pts[i]))],
        ders |-> [i \in 1..Len(pts) |-> PEvalQ(PDerQ(a), Pt(pts[i]))],
        \* q(x) = SUM gamma_k x^k and its derivatives with respect to x, at x = u^2
        qders |-> [jd \in 1..4 |-> [i \in 1..Len(pts) |-> PEvalQ(PDerN(basis[Len(basis)][3], jd - 1), Pt(RMul(pts[i], pts[i])))]]]
Emit == (EmitOn /\ Len(basis) > 0) => PrintT(<<"EMIT", ToJson(Rec)>>)
=============================================================================

------------------------- MODULE InterferogramTrace -------------------------
(* Trace validation for Interferogram.tla: executions recorded from the real prysm Interferogram (driven along
   TLC-generated operation sequences and along random programs) are accepted iff they are behaviours of the
   specification.  After every public call the recorder logs what a user can observe: data shape, dx, the set of
   NaN samples, and -- only for calls that return coordinates -- the descriptor of the returned Cartesian grid and
   whether the returned polar grid is the polar form of the current Cartesian one; plus one boolean per call for the
   call's own numerical promise (zero mean after piston removal, nothing left to re-fit after tilt / power removal,
   statistics identities).  The caches are hidden state: TLC reconstructs them through the actions.                  *)
EXTENDS Interferogram, IOUtils

VARIABLES tid, l
tvars == <<vars, tid, l>>

Traces == JsonDeserialize(IOEnv.TRACE_FILE)
T == Traces[tid].events
I0 == Traces[tid].init

Pairs(seq) == {<<seq[i][1], seq[i][2]>> : i \in 1..Len(seq)}
RatOf(t) == <<t[1], t[2]>>

TraceInit == /\ tid \in 1..Len(Traces) /\ l = 1
             /\ shape = <<I0.shape[1], I0.shape[2]>> /\ dx = RatOf(I0.dx) /\ invalid = Pairs(I0.invalid)
             /\ cxy = None /\ crt = None /\ hist = << >> /\ lastop = ""
             /\ init = [shape |-> shape, dx |-> dx, invalid |-> invalid]

Act(e) == CASE e.op = "read_xy"        -> ReadXY
            [] e.op = "read_rt"        -> ReadRT
            [] e.op = "crop"           -> Crop
            [] e.op = "pad"            -> Pad(e.pr, e.pc, e.nan)
            [] e.op = "mask"           -> Mask(e.rule)
            [] e.op = "fill"           -> Fill
            [] e.op = "spike_clip"     -> SpikeClip(Pairs(e.invalid))
            [] e.op = "remove_piston"  -> RemovePiston
            [] e.op = "remove_tiptilt" -> RemoveTilt
            [] e.op = "remove_power"   -> RemovePower
            [] e.op = "stats"          -> Stats
            [] e.op = "recenter"       -> Recenter
            [] e.op = "latcal"         -> Latcal(RatOf(e.s))
            [] e.op = "strip_latcal"   -> StripLatcal
            [] e.op = "filter"         -> Filter
            [] OTHER                   -> FALSE

TraceNext ==
  /\ l <= Len(T)
  /\ LET e == T[l] IN
       /\ Act(e)
       /\ shape' = <<e.shape[1], e.shape[2]>>
       /\ dx' = RatOf(e.dx)
       /\ invalid' = Pairs(e.invalid)
       /\ e.ok                                                   \* the call's own numerical promise held
       /\ e.op \in {"read_xy", "read_rt"} =>
             /\ e.xy.k = "some"
             /\ cxy' = Descr(<<e.xy.shape[1], e.xy.shape[2]>>, RatOf(e.xy.dx), <<e.xy.org[1], e.xy.org[2]>>)
       /\ e.op = "read_rt" => (e.rtok <=> (crt' = cxy'))
  /\ l' = l + 1 /\ tid' = tid

TraceSpec == TraceInit /\ [][TraceNext]_tvars
Accept == (l = Len(T) + 1) => PrintT(<<"ACCEPT", tid>>)
Progress == PrintT(<<"AT", tid, l>>)
=============================================================================

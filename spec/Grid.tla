------------------------------- MODULE Grid -------------------------------
(* C04 -- one origin convention: sample n \div 2 (0-based) of every axis is the origin.

   Pure index arithmetic shared by every other specification that has an origin:
   FftRange, Origin, Off (the single offset rule for pad and crop), frequency axes,
   and a history machine over 2-D label arrays: Pad (explicit shape or scalar Q, three
   fill modes) and Crop in any order.  Labels are the signed coordinates of the
   ORIGINAL samples, so any misplacement by one sample on either axis is visible.      *)
EXTENDS Integers, Sequences, FiniteSets, TLC, Json, GridLib

CONSTANTS MaxR, MaxC,      \* largest number of rows / columns
          Depth,           \* longest operation history
          Modes,           \* subset of {"constant0", "constantV", "edge", "wrap"}
          Qs,              \* set of <<num, den>> scalar padding factors (dyadic, > 1)
          Dxs,             \* set of <<num, den>> sample spacings
          EmitOn           \* TRUE: print one JSON record per state (run with -workers 1)

VARIABLES shape,   \* <<rows, cols>>
          arr,     \* arr[i][j] : label code of the sample now at row i, column j (1-based)
          hist,    \* sequence of operations applied so far
          pure,    \* TRUE while every pad so far was a constant-fill pad
          dx,      \* <<num, den>>
          shape0   \* shape of the initial array (constant along a behaviour)

vars == <<shape, arr, hist, pure, dx, shape0>>

---------------------------------------------------------------------------
(* index arithmetic: see GridLib *)

Fill == 0
Code(y, x) == (y + 50) * 100 + (x + 50)                   \* label of original sample (y, x)
Lbl(r, c) == [i \in 1..r |-> [j \in 1..c |-> Code(FftRange(r)[i], FftRange(c)[j])]]


\* source index along one axis for destination index k when resizing n -> m
Src(k, n, m) == k - Off(n, m)

Resize2(a, r, c, r2, c2, mode) ==
  [i \in 1..r2 |-> [j \in 1..c2 |->
     LET si == Src(i, r, r2)  sj == Src(j, c, c2) IN
     IF si \in 1..r /\ sj \in 1..c THEN a[si][sj]
     ELSE CASE mode = "edge" -> a[Clamp(si, r)][Clamp(sj, c)]
            [] mode = "wrap" -> a[Wrap(si, r)][Wrap(sj, c)]
            [] OTHER         -> Fill]]

---------------------------------------------------------------------------
Init == /\ shape \in (1..MaxR) \X (1..MaxC)
        /\ arr = Lbl(shape[1], shape[2])
        /\ hist = << >>
        /\ pure = TRUE
        /\ dx \in Dxs
        /\ shape0 = shape

PadShape(r2, c2, mode) ==
  /\ Len(hist) < Depth
  /\ r2 >= shape[1] /\ c2 >= shape[2] /\ <<r2, c2>> # shape
  /\ arr' = Resize2(arr, shape[1], shape[2], r2, c2, mode)
  /\ shape' = <<r2, c2>>
  /\ hist' = Append(hist, [op |-> "pad", r |-> r2, c |-> c2, mode |-> mode, qn |-> 0, qd |-> 1])
  /\ pure' = (pure /\ mode \in {"constant0", "constantV"})
  /\ UNCHANGED <<dx, shape0>>

PadQ(q, mode) ==
  LET r2 == CeilMul(shape[1], q)  c2 == CeilMul(shape[2], q) IN
  /\ Len(hist) < Depth
  /\ r2 <= MaxR /\ c2 <= MaxC
  /\ arr' = Resize2(arr, shape[1], shape[2], r2, c2, mode)
  /\ shape' = <<r2, c2>>
  /\ hist' = Append(hist, [op |-> "padQ", r |-> r2, c |-> c2, mode |-> mode, qn |-> q[1], qd |-> q[2]])
  /\ pure' = (pure /\ mode \in {"constant0", "constantV"})
  /\ UNCHANGED <<dx, shape0>>

Crop(r2, c2) ==
  /\ Len(hist) < Depth
  /\ r2 <= shape[1] /\ c2 <= shape[2] /\ <<r2, c2>> # shape
  /\ arr' = Resize2(arr, shape[1], shape[2], r2, c2, "constant0")
  /\ shape' = <<r2, c2>>
  /\ hist' = Append(hist, [op |-> "crop", r |-> r2, c |-> c2, mode |-> "", qn |-> 0, qd |-> 1])
  /\ UNCHANGED <<pure, dx, shape0>>

DoPadShape == \E r2 \in 1..MaxR, c2 \in 1..MaxC, mode \in Modes : PadShape(r2, c2, mode)
DoPadQ     == \E q \in Qs, mode \in Modes : PadQ(q, mode)
DoCrop     == \E r2 \in 1..MaxR, c2 \in 1..MaxC : Crop(r2, c2)
Next == DoPadShape \/ DoPadQ \/ DoCrop
Spec == Init /\ [][Next]_vars

---------------------------------------------------------------------------
(* the properties *)
R == shape[1]
C == shape[2]

TypeOK == /\ Len(arr) = R /\ \A i \in 1..R : Len(arr[i]) = C

\* the original origin sample sits at the origin index of the current array, always
OriginInv == arr[Origin(R) + 1][Origin(C) + 1] = Code(0, 0)

\* while only constant fills were used, every surviving original sample is at its own coordinate
CoordInv == pure => \A i \in 1..R, j \in 1..C :
              arr[i][j] # Fill => arr[i][j] = Code(FftRange(R)[i], FftRange(C)[j])

\* no original sample is duplicated by constant-fill pads / crops
NoDup == pure => \A i1, i2 \in 1..R, j1, j2 \in 1..C :
              (arr[i1][j1] = arr[i2][j2] /\ arr[i1][j1] # Fill) => (i1 = i2 /\ j1 = j2)

\* crop undoes pad exactly, from every reachable state and to every larger shape, every mode
CropUndoesPad == \A r2 \in R..MaxR, c2 \in C..MaxC, mode \in Modes :
   Resize2(Resize2(arr, R, C, r2, c2, mode), r2, c2, R, C, "constant0") = arr

\* grids contain exactly one zero per axis, at the origin index; coordinates are strictly increasing
GridZero == \A n \in {R, C} :
   /\ FftRange(n)[Origin(n) + 1] = 0
   /\ \A i \in 1..n : FftRange(n)[i] = 0 => i = Origin(n) + 1
   /\ \A i \in 1..(n - 1) : FftRange(n)[i + 1] = FftRange(n)[i] + 1

\* shifted frequency axis is the fftshift of the natural one, and has its zero at the origin index
FreqInv == \A n \in {R, C} :
   /\ FftFreq(n)[1] = 0
   /\ \A i \in 1..n : ShiftedFreq(n)[i] = FftFreq(n)[Wrap(i - Origin(n), n)]
   /\ Cardinality({FftFreq(n)[i] : i \in 1..n}) = n

\* a point source k samples from the origin has centroid k (in samples; times dx in length units)
CentroidInv == \A i \in 1..R, j \in 1..C :
   /\ FftRange(R)[i] = (i - 1) - Origin(R)
   /\ FftRange(C)[j] = (j - 1) - Origin(C)

---------------------------------------------------------------------------
Rec == [hist |-> hist, hist0 |-> shape0, r |-> R, c |-> C, arr |-> arr, pure |-> pure,
        dxn |-> dx[1], dxd |-> dx[2], oy |-> Origin(R), ox |-> Origin(C),
        ys |-> FftRange(R), xs |-> FftRange(C),
        fyn |-> FftFreq(R), fxn |-> FftFreq(C)]
Emit == EmitOn => PrintT(<<"EMIT", ToJson(Rec)>>)
=============================================================================

------------------------------ MODULE HexRing ------------------------------
(* C18 -- the ring walk of prysm.segmented.hex_ring as a step machine, and the id bookkeeping of a composite aperture.

   Walk(k): start at (-k, k, 0); six sides, k steps each: record the tile, move to its neighbour in direction `side`;
   then rotate the list left k times.  One action per loop iteration of the code (Step, Rotate), so that TLC visits every
   intermediate list.  Checked in every state: cube coordinates sum to zero; recorded tiles are pairwise distinct and at
   hex distance k from the origin; consecutive tiles are neighbours.  At the end: 6k tiles, the walk closes (the last tile
   is a neighbour of the first), and the list equals the closed form HexLib!RingClosed used by Aperture.tla.
   Ids: ring i carries 6 i consecutive ids after those of the rings inside it; excluding a set of ids leaves exactly
   NumCells - |exclude /\ ids| segments, in increasing id order.                                                      *)
EXTENDS Integers, Sequences, FiniteSets, TLC, Json, HexLib

CONSTANTS MaxRing, Excludes, Variant, EmitOn
VARIABLES k, side, j, tile, results, rot, phase
vars == <<k, side, j, tile, results, rot, phase>>

Init == /\ k \in 1..MaxRing /\ side = 0 /\ j = 0 /\ tile = <<0 - k, k, 0>> /\ results = << >> /\ rot = 0 /\ phase = "walk"
Step == /\ phase = "walk" /\ side < 6
        /\ results' = Append(results, tile)
        /\ tile' = HexNeighbor(tile, IF Variant = "wrong-turn" /\ side = 4 THEN 5 ELSE side)
        /\ IF j + 1 = k THEN (j' = 0 /\ side' = side + 1) ELSE (j' = j + 1 /\ side' = side)
        /\ phase' = (IF j + 1 = k /\ side = 5 THEN "rotate" ELSE "walk")
        /\ UNCHANGED <<k, rot>>
Rotate == /\ phase = "rotate" /\ rot < k
          /\ results' = Append(Tail(results), Head(results))
          /\ rot' = rot + 1
          /\ phase' = (IF rot + 1 = k THEN "done" ELSE "rotate")
          /\ UNCHANGED <<k, side, j, tile>>
Next == Step \/ Rotate
Spec == Init /\ [][Next]_vars

CubeLaw == \A p \in 1..Len(results) : results[p][1] + results[p][2] + results[p][3] = 0
OnRing == \A p \in 1..Len(results) : HexDist(results[p], HexOrigin) = k
Distinct == \A p \in 1..Len(results), q \in 1..Len(results) : p # q => results[p] # results[q]
Chain == phase = "walk" => \A p \in 1..(Len(results) - 1) : HexDist(results[p], results[p + 1]) = 1
Closed == phase # "walk" => /\ Len(results) = 6 * k
                            /\ \A p \in 1..(6 * k) : HexDist(results[p], results[(p % (6 * k)) + 1]) = 1
                            /\ tile = <<0 - k, k, 0>>                           \* the walk returns to its start
RingTab == TLCEval([r \in 1..MaxRing |-> RingClosed(r)])
MatchesClosedForm == phase = "done" => results = RingTab[k]

\* ---- ids and exclusion (constant level: checked once, in the initial states)
Ids(rings) == 0..(NumCells(rings) - 1)
RingOfId(id) == IF id = 0 THEN 0 ELSE CHOOSE i \in 1..MaxRing : FirstId(i) <= id /\ id < FirstId(i + 1)
Kept(rings, ex) == Ids(rings) \ ex
CellsTab == TLCEval([r \in 0..MaxRing |-> AllCells(r)])
IdLaw == (results = << >>) => \A rings \in 0..MaxRing :
            LET cells == CellsTab[rings] IN
            /\ NumCells(rings) = Len(cells)
            /\ \A id \in Ids(rings) : HexDist(cells[id + 1], HexOrigin) = RingOfId(id)
            /\ Cardinality({cells[a] : a \in 1..Len(cells)}) = Len(cells)
            /\ \A ex \in Excludes : Cardinality(Kept(rings, ex)) = NumCells(rings) - Cardinality(ex \cap Ids(rings))

Emit == (EmitOn /\ phase = "done") => PrintT(<<"EMIT", ToJson([k |-> k, ring |-> results])>>)
=============================================================================

------------------------------ MODULE PolyDefs ------------------------------
(* Closed-form definitions of the polynomial families in exact ModQ arithmetic (no variables): shared by OrthoPoly
   (C07 / C09 values, orthogonality), Clenshaw (C09 / C10 recurrence machines) and ModalSum.  See OrthoPoly for the
   list of textbook formulas.                                                                                          *)
EXTENDS Integers, Sequences, FiniteSets, Rat, ModQ

Pt(x) == MRat(x[1], x[2])
RI(k) == <<k, 1>>
Half == <<1, 2>>
\* generalized binomial-like pieces
Choose(nn, k) == MDiv(MFact(nn), MMul(MFact(k), MFact(nn - k)))
Sign(k) == IF k % 2 = 0 THEN MOne ELSE MNeg(MOne)

---------------------------------------------------------------------------
(* coefficient lists (lowest power first) in the family's own variable *)
JacPoly(nn, a, b) ==        \* in t = (x - 1)/2
   [l1 \in 1..(nn + 1) |-> LET l == l1 - 1 IN
       MDiv(MMul(MRise(RAdd(RAdd(a, b), RI(nn + 1)), l), MRise(RAdd(a, RI(l + 1)), nn - l)), MMul(MFact(l), MFact(nn - l)))]
\* polynomials in x with only powers n, n-2, ... : Term(k) is the coefficient of x^(n-2k)
Sparse(nn, Term(_)) == [i1 \in 1..(nn + 1) |-> LET p == i1 - 1 IN
                          IF (nn - p) % 2 = 0 /\ p <= nn THEN Term((nn - p) \div 2) ELSE MZero]
ChebT(nn) == IF nn = 0 THEN <<MOne>>
             ELSE Sparse(nn, LAMBDA k : MMul(MMul(Sign(k), MDiv(MMul(MQ(nn), MFact(nn - k - 1)), MMul(MQ(2), MMul(MFact(k), MFact(nn - 2 * k))))), MPow(MQ(2), nn - 2 * k)))
ChebU(nn) == IF nn < 0 THEN << >> ELSE Sparse(nn, LAMBDA k : MMul(MMul(Sign(k), Choose(nn - k, k)), MPow(MQ(2), nn - 2 * k)))
ChebV(nn) == PAddQ(ChebU(nn), PScaleQ(MNeg(MOne), ChebU(nn - 1)))
ChebW(nn) == PAddQ(ChebU(nn), ChebU(nn - 1))
HermHe(nn) == Sparse(nn, LAMBDA k : MMul(Sign(k), MDiv(MFact(nn), MMul(MMul(MFact(k), MFact(nn - 2 * k)), MPow(MQ(2), k)))))
HermH(nn)  == Sparse(nn, LAMBDA k : MMul(MMul(Sign(k), MDiv(MFact(nn), MMul(MFact(k), MFact(nn - 2 * k)))), MPow(MQ(2), nn - 2 * k)))
Lag(nn, a) == [i1 \in 1..(nn + 1) |-> LET i == i1 - 1 IN
                 MMul(Sign(i), MDiv(MRise(RAdd(a, RI(i + 1)), nn - i), MMul(MFact(nn - i), MFact(i))))]
Dick1(nn, a) == IF nn = 0 THEN <<MQ(2)>>
                ELSE Sparse(nn, LAMBDA i : MMul(MMul(MRat(nn, nn - i), Choose(nn - i, i)), MPow(MNeg(Pt(a)), i)))
Dick2(nn, a) == Sparse(nn, LAMBDA i : MMul(Choose(nn - i, i), MPow(MNeg(Pt(a)), i)))
ZernR(nn, m) == Sparse(nn, LAMBDA k : IF k <= (nn - m) \div 2
                                      THEN MMul(Sign(k), MDiv(MFact(nn - k), MMul(MFact(k), MMul(MFact(((nn + m) \div 2) - k), MFact(((nn - m) \div 2) - k)))))
                                      ELSE MZero)

\* the variable of the coefficient list as a function of the evaluation point, and d(variable)/dx
VarOf(fam, x) == IF fam \in {"jacobi", "legendre"} THEN RMul(RSub(x, RI(1)), Half) ELSE x
DVar(fam) == IF fam \in {"jacobi", "legendre"} THEN Half ELSE RI(1)

Coefs(c, nn) ==
  CASE c.fam = "jacobi"     -> JacPoly(nn, c.a, c.b)
    [] c.fam = "legendre"   -> JacPoly(nn, RI(0), RI(0))
    [] c.fam = "cheby1"     -> ChebT(nn)
    [] c.fam = "cheby2"     -> ChebU(nn)
    [] c.fam = "cheby3"     -> ChebV(nn)
    [] c.fam = "cheby4"     -> ChebW(nn)
    [] c.fam = "hermite_He" -> HermHe(nn)
    [] c.fam = "hermite_H"  -> HermH(nn)
    [] c.fam = "laguerre"   -> Lag(nn, c.a)
    [] c.fam = "dickson1"   -> Dick1(nn, c.a)
    [] c.fam = "dickson2"   -> Dick2(nn, c.a)
    [] c.fam = "zernike"    -> ZernR(nn, c.a[1])
    [] c.fam = "power"      -> [i1 \in 1..(nn + 1) |-> IF i1 = nn + 1 THEN MOne ELSE MZero]      \* x^n : XY and Hopkins terms are products of these
    [] OTHER                -> << >>

Value(c, nn, x) ==
  IF c.fam = "qcon" THEN LET r2 == RMul(x, x) IN
        MMul(Pt(RMul(r2, r2)), PEvalQ(JacPoly(nn, RI(0), RI(4)), Pt(RSub(r2, RI(1)))))          \* t = ((2r^2-1)-1)/2 = r^2-1
  ELSE PEvalQ(Coefs(c, nn), Pt(VarOf(c.fam, x)))
Deriv(c, nn, x) ==
  IF c.fam = "qcon" THEN LET r2 == RMul(x, x)  t == Pt(RSub(r2, RI(1)))  p == JacPoly(nn, RI(0), RI(4)) IN
        \* d/dr [ r^4 P(t(r)) ] = 4 r^3 P + r^4 P'(t) 2r
        MAdd(MMul(Pt(RMul(RI(4), RMul(r2, x))), PEvalQ(p, t)), MMul(Pt(RMul(RI(2), RMul(RMul(r2, r2), x))), PEvalQ(PDerQ(p), t)))
  ELSE MMul(Pt(DVar(c.fam)), PEvalQ(PDerQ(Coefs(c, nn)), Pt(VarOf(c.fam, x))))

---------------------------------------------------------------------------
(* exact inner products *)
DotMoments(p, Mu(_)) == LET S[i \in 0..Len(p)] == IF i = 0 THEN MZero ELSE MAdd(S[i - 1], MMul(p[i], Mu(i - 1))) IN S[Len(p)]
\* Jacobi weight, normalised to total mass 1, moments of t^k, t = (x-1)/2 :  (-1)^k (a+1)_k / (a+b+2)_k
JacMu(a, b, k) == MMul(Sign(k), MDiv(MRise(RAdd(a, RI(1)), k), MRise(RAdd(RAdd(a, b), RI(2)), k)))
JacInner(nn, mm, a, b) == DotMoments(PMulQ(JacPoly(nn, a, b), JacPoly(mm, a, b)), LAMBDA k : JacMu(a, b, k))
JacNorm(nn, a, b) == IF nn = 0 THEN MOne
                     ELSE MDiv(MMul(MRise(RAdd(a, RI(1)), nn), MRise(RAdd(b, RI(1)), nn)),
                               MMul(MMul(Pt(RAdd(RAdd(a, b), RI(2 * nn + 1))), MFact(nn)), MRise(RAdd(RAdd(a, b), RI(2)), nn - 1)))
\* Zernike radial parts under r dr on [0,1]: moment of r^k is 1/(k+2)
ZernInner(nn, mm, m) == DotMoments(PMulQ(ZernR(nn, m), ZernR(mm, m)), LAMBDA k : MRat(1, k + 2))

JacParams(c) == CASE c.fam = "jacobi" -> <<c.a, c.b>>
                  [] c.fam = "legendre" -> <<RI(0), RI(0)>>
                  [] c.fam = "cheby1" -> <<<<0 - 1, 2>>, <<0 - 1, 2>>>>
                  [] c.fam = "cheby2" -> <<Half, Half>>
                  [] c.fam = "cheby3" -> <<<<0 - 1, 2>>, Half>>
                  [] c.fam = "cheby4" -> <<Half, <<0 - 1, 2>>>>
                  [] OTHER -> <<RI(0), RI(0)>>
IsJacFam(c) == c.fam \in {"jacobi", "legendre", "cheby1", "cheby2", "cheby3", "cheby4"}


\* j-fold formal derivative of a coefficient list
RECURSIVE PDerN(_, _)
PDerN(p, j) == IF j = 0 THEN p ELSE PDerN(PDerQ(p), j - 1)
=============================================================================

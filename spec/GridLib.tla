------------------------------ MODULE GridLib ------------------------------
(* The origin convention as pure index arithmetic (no variables): shared by Grid, Dft, Conv, Psd, ... *)
EXTENDS Integers, Sequences

Origin(n)   == n \div 2                                   \* 0-based index of the zero sample
FftRange(n) == [i \in 1..n |-> (i - 1) - Origin(n)]       \* signed sample coordinate
Off(n, m)   == Origin(m) - Origin(n)                      \* pad: >= 0, crop: <= 0 ; ONE rule
CeilMul(s, q) == ((s * q[1]) + q[2] - 1) \div q[2]        \* ceil(s * Q)

\* natural (unshifted) DFT frequency order in units of 1/(n dx): 0, 1, ..., then negatives
FftFreq(n)  == [i \in 1..n |-> IF (i - 1) <= (n - 1) \div 2 THEN i - 1 ELSE (i - 1) - n]
\* shifted order = FftRange
ShiftedFreq(n) == FftRange(n)


Clamp(k, n) == IF k < 1 THEN 1 ELSE IF k > n THEN n ELSE k
Wrap(k, n)  == ((((k - 1) % n) + n) % n) + 1
=============================================================================

------------------------------ MODULE Aperture ------------------------------
(* C18 -- segmented apertures tile exactly; mask primitives respect their geometry.

   Everything is exact.  Lengths are integers in a unit of which the sample spacing is dxu units; sample (i, j) (1-based
   row, column) sits at y = (i - 1 - Origin(nr)) dxu, x = (j - 1 - Origin(nc)) dxu (GridLib: origin sample at n div 2).
   Coordinates are carried DOUBLED so that half-units stay integral, in Z[sqrt 3] (HexLib) so that hexagon edges, centres
   of hexagonal segments, sector boundaries and vanes at multiples of 30 degrees are exact.  Every membership test returns a
   class: "in" (strictly inside), "out" (strictly outside) or "tie" (exactly on the analytic boundary: rasterisation may put
   it on either side; ties are excluded when the implementation is compared).

   Mode "hex":  CompositeHexagonalAperture.  Segments = kept ids of the rings (HexLib); centre of cell (q, r) at pitch
                P = D + s (flat-to-flat diameter + gap):   angle 90: ((sqrt3/2) q P, (q/2 + r) P);  angle 0: ((q + r/2) P, (sqrt3/2) r P);
                a sample is in a segment iff  |flat| <= D/2  and  sqrt3 |point| + |flat| <= D  in the segment's local coordinates;
                each segment is evaluated inside its window  [origin + floor(c/dx) - W, origin + ceil(c/dx) + W]  with
                W = floor(r_seg/dx + 1); the aperture is the union; the OPD is accumulated window by window.
   Mode "key":  CompositeKeystoneAperture with segments per ring in {2, 3, 4, 6, 12} and rotations that are multiples of 30
                degrees: annular sectors  r_in < r <= r_out,  lo < theta < hi;  the gaps are strips of width azimuthal_gap
                along each sector's upper boundary ray; amp = (centre disc + sectors) minus strips.
   Mode "prim": circle, annulus, offset circle, rectangle and ellipse (Pythagorean rotations), regular polygons with vertex
                angles at multiples of 30 degrees, spiders with 1, 2, 3, 4, 6 vanes.
   Variants: "trunc-window" (hex) and "corner-bbox" (key) are the pinned window computations; they must violate the
   WindowCovers laws.                                                                                                 *)
EXTENDS Integers, Sequences, FiniteSets, FiniteSetsExt, TLC, Json, GridLib, HexLib

CONSTANTS Mode, Cases, Variant, EmitOn
VARIABLES cs, done, tab
vars == <<cs, done, tab>>

NR == cs.nr
NC == cs.nc
Dxu == cs.dxu
GridCells == (1..NR) \X (1..NC)
X2(j) == 2 * (j - 1 - Origin(NC)) * Dxu
Y2(i) == 2 * (i - 1 - Origin(NR)) * Dxu
Pt(cell) == <<Q3Int(X2(cell[2])), Q3Int(Y2(cell[1]))>>
ClampI(k, n) == IF k < 0 THEN 0 ELSE IF k > n THEN n ELSE k
Worst(S) == IF "out" \in S THEN "out" ELSE IF "tie" \in S THEN "tie" ELSE "in"       \* conjunction of classes
Best(S) == IF "in" \in S THEN "in" ELSE IF "tie" \in S THEN "tie" ELSE "out"         \* disjunction of classes
NotC(c) == IF c = "in" THEN "out" ELSE IF c = "out" THEN "in" ELSE "tie"
OfSign(s) == IF s > 0 THEN "in" ELSE IF s < 0 THEN "out" ELSE "tie"

-----------------------------------------------------------------------------
\* ---- hexagonal apertures
Pitch == cs.d + cs.s
KeptIds == {id \in 0..(NumCells(cs.rings) - 1) : id \notin cs.ex}
SortedIds == LET RECURSIVE H(_, _)
                 H(T, acc) == IF T = {} THEN acc ELSE LET m == CHOOSE x \in T : \A y \in T : x <= y IN H(T \ {m}, Append(acc, m))
             IN H(KeptIds, << >>)
NSeg == Len(SortedIds)
HexOf(id) == AllCells(cs.rings)[id + 1]
Center2(h) == IF cs.rot = 90 THEN <<Q3(0, h[1] * Pitch), Q3Int((h[1] + 2 * h[2]) * Pitch)>>
                             ELSE <<Q3Int((2 * h[1] + h[2]) * Pitch), Q3(0, h[2] * Pitch)>>
HexClassAt(c2, p) ==
  LET u == Q3Sub(p[1], c2[1])  v == Q3Sub(p[2], c2[2])
      flat == Q3Abs(IF cs.rot = 90 THEN v ELSE u)
      point == Q3Abs(IF cs.rot = 90 THEN u ELSE v)
      s1 == Q3Sign(Q3Sub(Q3Int(cs.d), flat))
      s2 == Q3Sign(Q3Sub(Q3Sub(Q3Int(2 * cs.d), Q3Mul(Sqrt3, point)), flat)) IN
  Worst({OfSign(s1), OfSign(s2)})
\* W = floor(r_seg / dx + 1), r_seg = D / sqrt 3
HalfWin == 1 + (CHOOSE m \in 0..cs.d : Q3Sign(Q3(cs.d, 0 - m * Dxu)) >= 0 /\ Q3Sign(Q3(cs.d, 0 - (m + 1) * Dxu)) < 0)
Bound == 4 * (NR + NC) + 8
TruncDiv(x, d) == IF Q3Sign(x) >= 0 THEN Q3FloorDiv(x, d, Bound) ELSE Q3CeilDiv(x, d, Bound)
\* 0-based half-open index range along an axis of n samples for a (doubled) centre coordinate c2
WinRange(c2, n, hw) ==
  IF Variant = "trunc-window"
  THEN LET lo == ((n + 1) \div 2) + TruncDiv(c2, 2 * Dxu) - hw IN <<ClampI(lo, n), ClampI(lo + 2 * hw, n)>>
  ELSE <<ClampI(Origin(n) + Q3FloorDiv(c2, 2 * Dxu, Bound) - hw, n), ClampI(Origin(n) + Q3CeilDiv(c2, 2 * Dxu, Bound) + hw + 1, n)>>
WinCells(c2, hwy, hwx) == LET ry == WinRange(c2[2], NR, hwy)  rx == WinRange(c2[1], NC, hwx) IN ((ry[1] + 1)..ry[2]) \X ((rx[1] + 1)..rx[2])
HexTab == [k \in 1..NSeg |->
            LET c2 == Center2(HexOf(SortedIds[k]))  win == WinCells(c2, HalfWin, HalfWin) IN
            [id |-> SortedIds[k], hex |-> HexOf(SortedIds[k]), c2 |-> c2, win |-> win,
             in |-> {cell \in win : HexClassAt(c2, Pt(cell)) = "in"}, tie |-> {cell \in win : HexClassAt(c2, Pt(cell)) = "tie"}]]

HexCount == (Mode = "hex" /\ done) => Len(tab) = NumCells(cs.rings) - Cardinality(cs.ex \cap (0..(NumCells(cs.rings) - 1)))
\* the window of a segment contains every sample that is not strictly outside the segment
HexWindowCovers == (Mode = "hex" /\ done) => \A k \in 1..Len(tab) : \A cell \in GridCells : HexClassAt(tab[k].c2, Pt(cell)) # "out" => cell \in tab[k].win
\* no sample in two segments; with a positive gap not even boundary samples are shared
HexDisjoint == (Mode = "hex" /\ done) => \A a \in 1..Len(tab), b \in 1..Len(tab) : (a < b) =>
                  (/\ tab[a].in \cap tab[b].in = {}
                   /\ ((cs.s > 0) => ((tab[a].in \cup tab[a].tie) \cap (tab[b].in \cup tab[b].tie) = {})))
\* centres of different segments are at least one pitch apart: |c_a - c_b|^2 >= P^2 (doubled: >= 4 P^2)
HexPitch == (Mode = "hex" /\ done) => \A a \in 1..Len(tab), b \in 1..Len(tab) : (a < b) =>
                LET dd == VSub2(tab[a].c2, tab[b].c2) IN Q3Sign(Q3Sub(Dot2(dd, dd), Q3Int(4 * Pitch * Pitch))) >= 0
\* area to within the rasterisation of the boundary, for segments that lie wholly inside the grid:
\* | N dx^2 - (sqrt3/2) D^2 | <= 2 * perimeter * dx,  perimeter = 2 sqrt3 D        (everything doubled)
Inside(k) == \A cell \in GridCells : (cell[1] \in {1, NR} \/ cell[2] \in {1, NC}) => HexClassAt(tab[k].c2, Pt(cell)) = "out"
HexArea == (Mode = "hex" /\ done) => \A k \in 1..Len(tab) : Inside(k) =>
               LET n == Cardinality(tab[k].in)
                   lhs == Q3(2 * n * Dxu * Dxu, 0 - cs.d * cs.d) IN
               Q3Leq(Q3Abs(lhs), Q3(2 * Cardinality(tab[k].tie) * Dxu * Dxu, 8 * cs.d * Dxu))
\* ---- optical path error: three modes per segment (piston, x, y in the segment's local coordinates, unit normalisation radius);
\* twice the OPD, so that it stays in Z[sqrt 3]
CoefA(id) == <<(id % 3) - 1, id % 2, ((2 * id) % 3) - 1>>
CoefB(id) == <<IF id = cs.target THEN 1 ELSE 0, 0, 0>>
CAdd(f, g) == [id \in KeptIds |-> <<f[id][1] + g[id][1], f[id][2] + g[id][2], f[id][3] + g[id][3]>>]
Tile2(k, co, cell) == LET p == Pt(cell) u == Q3Sub(p[1], tab[k].c2[1])  v == Q3Sub(p[2], tab[k].c2[2]) IN
                      Q3Add(Q3Int(2 * co[1]), Q3Add(Q3Scale(co[2], u), Q3Scale(co[3], v)))
\* the implementation's accumulation: out[window] += tile * mask, one segment after the other (here: per sample, in segment order)
RECURSIVE AccumAt(_, _, _)
AccumAt(k, f, cell) == IF k = 0 THEN Q3Int(0)
                       ELSE IF cell \in tab[k].in THEN Q3Add(AccumAt(k - 1, f, cell), Tile2(k, f[tab[k].id], cell)) ELSE AccumAt(k - 1, f, cell)
Accum(k, f) == [cell \in GridCells |-> AccumAt(k, f, cell)]
FA == [id \in KeptIds |-> CoefA(id)]
FB == [id \in KeptIds |-> CoefB(id)]
HexOpd == (Mode = "hex" /\ done /\ cs.opd) =>
   LET oa == Accum(Len(tab), FA)  ob == Accum(Len(tab), FB)  oab == Accum(Len(tab), CAdd(FA, FB)) IN
   /\ \A cell \in GridCells : oab[cell] = Q3Add(oa[cell], ob[cell])                           \* linear in the coefficients
   /\ \A cell \in GridCells : ob[cell] = (IF \E k \in 1..Len(tab) : tab[k].id = cs.target /\ cell \in tab[k].in THEN Q3Int(2) ELSE Q3Int(0))   \* confined
   /\ \A cell \in GridCells : (\A k \in 1..Len(tab) : cell \notin tab[k].in) => oa[cell] = Q3Int(0)

-----------------------------------------------------------------------------
\* ---- keystone apertures.  rings: sequence of [n, w, g, rot] (rot in units of 30 degrees, -1 = the default = one segment arc)
R2(cell) == X2(cell[2]) * X2(cell[2]) + Y2(cell[1]) * Y2(cell[1])
RECURSIVE Outer2(_)
Inner2(i) == (IF i = 1 THEN cs.cd ELSE Outer2(i - 1)) + 2 * cs.rings[i].g
Outer2(i) == Inner2(i) + 2 * cs.rings[i].w
Arc30(i) == 12 \div cs.rings[i].n
Rot30(i) == IF cs.rings[i].rot < 0 THEN Arc30(i) ELSE cs.rings[i].rot
Lo30(i, j) == j * Arc30(i) + Rot30(i) - 6
KeySegs == LET RECURSIVE H(_)
               H(i) == IF i = 0 THEN << >> ELSE H(i - 1) \o [j \in 1..cs.rings[i].n |-> [ring |-> i, lo |-> Lo30(i, j - 1), hi |-> Lo30(i, j - 1) + Arc30(i)]]
           IN H(Len(cs.rings))
RadialClass(i, cell) == Worst({OfSign(R2(cell) - Inner2(i) * Inner2(i)), OfSign(Outer2(i) * Outer2(i) - R2(cell))})
SectorClass(sg, cell) == Worst({OfSign(Q3Sign(Cross2(Dir30(sg.lo), Pt(cell)))), OfSign(Q3Sign(Cross2(Pt(cell), Dir30(sg.hi))))})
KeyClass(sg, cell) == Worst({RadialClass(sg.ring, cell), SectorClass(sg, cell)})
\* the gap: a strip of full width ag along the ray at the sector's upper boundary, between the ring's radii
StripClass(sg, cell) == LET d == Dir30(sg.hi) IN
   Worst({RadialClass(sg.ring, cell), OfSign(Q3Sign(Dot2(Pt(cell), d))), OfSign(Q3Sign(Q3Sub(Q3Int(2 * cs.ag), Q3Abs(Cross2(d, Pt(cell))))))})
CentreClass(cell) == OfSign(cs.cd * cs.cd - R2(cell))
\* window: bounding box of the sector (quadrupled coordinates: radius2 * <<2 cos, 2 sin>>), padded to whole samples
BoxPts(sg) == LET i == sg.ring  mid == Q3Int(0) IN
   {<<Q3Scale(Inner2(i), Dir30(sg.lo)[1]), Q3Scale(Inner2(i), Dir30(sg.lo)[2])>>, <<Q3Scale(Inner2(i), Dir30(sg.hi)[1]), Q3Scale(Inner2(i), Dir30(sg.hi)[2])>>,
    <<Q3Scale(Outer2(i), Dir30(sg.lo)[1]), Q3Scale(Outer2(i), Dir30(sg.lo)[2])>>, <<Q3Scale(Outer2(i), Dir30(sg.hi)[1]), Q3Scale(Outer2(i), Dir30(sg.hi)[2])>>}
   \cup (IF Variant = "corner-bbox" THEN {} ELSE {<<Q3Scale(Outer2(i), Dir30(a)[1]), Q3Scale(Outer2(i), Dir30(a)[2])>> : a \in {b \in (sg.lo + 1)..(sg.hi - 1) : b % 3 = 0}})
   \cup (IF (sg.hi - sg.lo) % 2 = 0 THEN {<<Q3Scale(Outer2(i), Dir30((sg.lo + sg.hi) \div 2)[1]), Q3Scale(Outer2(i), Dir30((sg.lo + sg.hi) \div 2)[2])>>} ELSE {})
Q3Min(S) == CHOOSE x \in S : \A y \in S : Q3Leq(x, y)
Q3Max(S) == CHOOSE x \in S : \A y \in S : Q3Leq(y, x)
KeyWin(sg) == LET xs == {p[1] : p \in BoxPts(sg)}  ys == {p[2] : p \in BoxPts(sg)}
                  mnx == Q3Min(xs)  mxx == Q3Max(xs)  mny == Q3Min(ys)  mxy == Q3Max(ys)
                  \* quadrupled -> doubled centre: (mn + mx) / 2 carried as numerator over 2: floor((mn + mx) / (8 dxu))
                  sx == Q3CeilDiv(Q3Sub(mxx, mnx), 8 * Dxu, Bound)  sy == Q3CeilDiv(Q3Sub(mxy, mny), 8 * Dxu, Bound)
                  rx == <<ClampI(Origin(NC) + Q3FloorDiv(Q3Add(mnx, mxx), 8 * Dxu, Bound) - sx, NC), ClampI(Origin(NC) + Q3CeilDiv(Q3Add(mnx, mxx), 8 * Dxu, Bound) + sx + 1, NC)>>
                  ry == <<ClampI(Origin(NR) + Q3FloorDiv(Q3Add(mny, mxy), 8 * Dxu, Bound) - sy, NR), ClampI(Origin(NR) + Q3CeilDiv(Q3Add(mny, mxy), 8 * Dxu, Bound) + sy + 1, NR)>> IN
              ((ry[1] + 1)..ry[2]) \X ((rx[1] + 1)..rx[2])
KeyTab == [k \in 1..Len(KeySegs) |-> LET sg == KeySegs[k] win == KeyWin(sg) IN
            [ring |-> sg.ring, lo |-> sg.lo, hi |-> sg.hi, win |-> win,
             in |-> {cell \in win : KeyClass(sg, cell) = "in"}, tie |-> {cell \in win : KeyClass(sg, cell) = "tie"},
             stripin |-> {cell \in GridCells : StripClass(sg, cell) = "in"}, striptie |-> {cell \in GridCells : StripClass(sg, cell) = "tie"}]]
CentreIn == {cell \in GridCells : CentreClass(cell) = "in"}
CentreTie == {cell \in GridCells : CentreClass(cell) = "tie"}
SumN == LET RECURSIVE H(_) H(i) == IF i = 0 THEN 0 ELSE H(i - 1) + cs.rings[i].n IN H(Len(cs.rings))
KeyCount == (Mode = "key" /\ done) => Len(tab) = SumN
KeyWindowCovers == (Mode = "key" /\ done) => \A k \in 1..Len(tab) : \A cell \in GridCells : KeyClass(KeySegs[k], cell) # "out" => cell \in tab[k].win
KeyDisjoint == (Mode = "key" /\ done) => (/\ \A a \in 1..Len(tab), b \in 1..Len(tab) : (a < b) => (tab[a].in \cap tab[b].in = {})
                                          /\ \A a \in 1..Len(tab) : tab[a].in \cap (CentreIn \cup CentreTie) = {})
\* the sectors of a ring partition its annulus: a sample strictly inside the annulus and on no sector boundary is in exactly one
KeyPartition == (Mode = "key" /\ done) => \A i \in 1..Len(cs.rings) : \A cell \in GridCells :
                   (RadialClass(i, cell) = "in" /\ \A k \in 1..Len(tab) : (tab[k].ring = i => cell \notin tab[k].tie)) =>
                       Cardinality({k \in 1..Len(tab) : tab[k].ring = i /\ cell \in tab[k].in}) = 1
AmpClass(cell) == LET member == Best({CentreClass(cell)} \cup {IF cell \in tab[k].in THEN "in" ELSE IF cell \in tab[k].tie THEN "tie" ELSE "out" : k \in 1..Len(tab)})
                      blocked == Best({IF cell \in tab[k].stripin THEN "in" ELSE IF cell \in tab[k].striptie THEN "tie" ELSE "out" : k \in 1..Len(tab)}) IN
                  Worst({member, NotC(blocked)})
\* every transmitting sample belongs to exactly one segment (the centre disc counts as one)
KeyAmp == (Mode = "key" /\ done) => \A cell \in GridCells : AmpClass(cell) = "in" =>
             Cardinality({k \in 1..Len(tab) : cell \in tab[k].in}) + (IF cell \in CentreIn THEN 1 ELSE 0) = 1

-----------------------------------------------------------------------------
\* ---- mask primitives.  cs.p = the primitive, cs.g = the same primitive with a larger size parameter
PC(cell, c) == <<Q3Sub(Pt(cell)[1], Q3Int(c[1])), Q3Sub(Pt(cell)[2], Q3Int(c[2]))>>         \* doubled coordinates about a doubled centre
Norm2(p) == Q3Add(Q3Mul(p[1], p[1]), Q3Mul(p[2], p[2]))
PolyVert(p, k) == LET th == k * (12 \div p.sides) + p.rot  d == Dir30(th) IN <<Q3Add(Q3Int(p.c[1]), Q3Scale(p.r, d[2])), Q3Add(Q3Int(p.c[2]), Q3Scale(p.r, d[1]))>>
PrimClass(p, cell) ==
  CASE p.k = "circle" -> OfSign(Q3Sign(Q3Sub(Q3Int(p.r2 * p.r2), Norm2(PC(cell, p.c)))))
    \* (an annulus without a hole, rin = 0, has no inner boundary: it is the disc)
    [] p.k = "annulus" -> Worst({IF p.rin2 = 0 THEN "in" ELSE OfSign(R2(cell) - p.rin2 * p.rin2), OfSign(p.rout2 * p.rout2 - R2(cell))})
    [] p.k = "rectangle" -> LET x == X2(cell[2]) y == Y2(cell[1]) a == p.ang[1] b == p.ang[2] h == p.ang[3] IN
                            Worst({OfSign(h * p.w2 - AbsI(a * x - b * y)), OfSign(h * p.h2 - AbsI(b * x + a * y))})
    [] p.k = "ellipse" -> LET x == X2(cell[2]) y == Y2(cell[1]) a == p.ang[1] b == p.ang[2] h == p.ang[3] IN
                          OfSign(p.a2 * p.a2 * p.b2 * p.b2 * h * h - (p.b2 * p.b2 * (a * x - b * y) * (a * x - b * y) + p.a2 * p.a2 * (b * x + a * y) * (b * x + a * y)))
    [] p.k = "polygon" -> Worst({OfSign(0 - Q3Sign(Cross2(VSub2(PolyVert(p, k + 1), PolyVert(p, k)), VSub2(Pt(cell), PolyVert(p, k))))) : k \in 0..(p.sides - 1)})
    [] OTHER -> \* spider: transmits outside every vane
                NotC(Best({LET d == Dir30(p.rot - m * (12 \div p.vanes)) q == PC(cell, p.c) IN
                           Worst({OfSign(Q3Sign(Dot2(q, d))), OfSign(Q3Sign(Q3Sub(Q3Int(2 * p.w), Q3Abs(Cross2(d, q)))))}) : m \in 0..(p.vanes - 1)}))
PrimTab == [c |-> [cell \in GridCells |-> PrimClass(cs.p, cell)], g |-> [cell \in GridCells |-> PrimClass(cs.g, cell)]]
\* growing the size parameter never removes a sample (a spider's transmitting set shrinks as its vanes widen)
PrimMonotone == (Mode = "prim" /\ done) => \A cell \in GridCells :
                   IF cs.p.k = "spider" THEN (tab.g[cell] = "in" => tab.c[cell] = "in") ELSE (tab.c[cell] # "out" => tab.g[cell] = "in" \/ (tab.c[cell] = "tie" /\ tab.g[cell] = "tie"))
Mirror(cell, fy, fx) == <<IF fy THEN 2 * Origin(NR) + 2 - cell[1] ELSE cell[1], IF fx THEN 2 * Origin(NC) + 2 - cell[2] ELSE cell[2]>>
SymOk(fy, fx) == \A cell \in GridCells : Mirror(cell, fy, fx) \in GridCells => tab.c[cell] = tab.c[Mirror(cell, fy, fx)]
PrimSymmetry == (Mode = "prim" /\ done) => (/\ (cs.sym.point => SymOk(TRUE, TRUE))
                                           /\ (cs.sym.x => SymOk(FALSE, TRUE))
                                           /\ (cs.sym.y => SymOk(TRUE, FALSE)))
\* the primitive is not degenerate on this grid: something is inside and something outside
PrimNontrivial == (Mode = "prim" /\ done) => (\E cell \in GridCells : tab.c[cell] = "in") /\ (\E cell \in GridCells : tab.c[cell] = "out")

-----------------------------------------------------------------------------
Init == cs \in Cases /\ done = FALSE /\ tab = << >>
Compute == /\ done = FALSE /\ done' = TRUE /\ UNCHANGED cs
           /\ tab' = (CASE Mode = "hex" -> HexTab [] Mode = "key" -> KeyTab [] OTHER -> PrimTab)
Next == Compute
Spec == Init /\ [][Next]_vars

Code(c) == IF c = "in" THEN 1 ELSE IF c = "out" THEN 0 ELSE 2
SetSeq(S) == LET RECURSIVE H(_, _)
                 H(T, acc) == IF T = {} THEN acc ELSE LET m == CHOOSE x \in T : TRUE IN H(T \ {m}, Append(acc, m))
             IN H(S, << >>)
Rec == CASE Mode = "hex" -> [mode |-> "hex", cs |-> [nr |-> NR, nc |-> NC, dxu |-> Dxu, d |-> cs.d, s |-> cs.s, rot |-> cs.rot, rings |-> cs.rings, ex |-> SetSeq(cs.ex), target |-> cs.target, opd |-> cs.opd],
                             segs |-> [k \in 1..Len(tab) |-> [id |-> tab[k].id, hex |-> tab[k].hex, c2 |-> tab[k].c2, in |-> SetSeq(tab[k].in), tie |-> SetSeq(tab[k].tie)]],
                             opd2 |-> IF cs.opd THEN LET oa == Accum(Len(tab), FA) IN [i \in 1..NR |-> [j \in 1..NC |-> oa[<<i, j>>]]] ELSE << >>,
                             coefs |-> [k \in 1..Len(tab) |-> CoefA(tab[k].id)]]
         [] Mode = "key" -> [mode |-> "key", cs |-> cs,
                             segs |-> [k \in 1..Len(tab) |-> [ring |-> tab[k].ring, lo |-> tab[k].lo, hi |-> tab[k].hi, in |-> SetSeq(tab[k].in), tie |-> SetSeq(tab[k].tie)]],
                             centre |-> [i \in 1..NR |-> [j \in 1..NC |-> Code(CentreClass(<<i, j>>))]],
                             amp |-> [i \in 1..NR |-> [j \in 1..NC |-> Code(AmpClass(<<i, j>>))]]]
         [] OTHER -> [mode |-> "prim", cs |-> cs, cls |-> [i \in 1..NR |-> [j \in 1..NC |-> Code(tab.c[<<i, j>>])]], grown |-> [i \in 1..NR |-> [j \in 1..NC |-> Code(tab.g[<<i, j>>])]]]
Emit == (EmitOn /\ done) => PrintT(<<"EMIT", ToJson(Rec)>>)
=============================================================================

-------------------------------- MODULE Dft --------------------------------
(* C01 / C02 / C05 / C06 -- the discrete Fourier kernels of the FFT, matrix-DFT and chirp-Z routes,
   in exact arithmetic: a kernel entry is a root of unity zeta_L^e stored as the exponent e mod L.

   One AXIS of a transform is described by
       n  input length,  m  output length,  Q = q[1]/q[2],  shift s = s[1]/s[2] (output samples),
   and a direction dir (1 forward exp(-...), -1 inverse exp(+...)).  The TEXTBOOK sum is

       F[k] = (n Q)^(-1/2) SUM_x f[x] exp(-dir 2 pi i  X[x] (U[k] - s) / (n Q)),
       X = FftRange(n), U = FftRange(m)                      (origin at index n div 2: GridLib)

   The three routes are written out the way the library computes them (matrix product with both
   coordinate vectors shifted; pad + full-period FFT; Bluestein factorisation with its circular
   kernel buffer) and TLC checks that each produces the textbook kernel, exactly or up to the pure
   per-output phase the property allows.  A 2-D transform is a pair (row axis, column axis) and the
   pairing of the public arguments (Q tuple, samples_out tuple, shift=(x, y)) is explicit.           *)
EXTENDS Integers, Sequences, FiniteSets, TLC, Json, GridLib, Cyclo, Rat

CONSTANTS Mode,      \* "axis" (laws of one axis), "pairs", "fft", "fixed" (2-D configurations to replay)
          Ns, Ms,    \* input / output lengths
          Qs,        \* set of <<qn, qd>>
          Ss,        \* set of <<sn, sd>>
          Dirs,      \* subset of {1, -1}
          Partners,  \* small set of axis configurations paired with every axis configuration
          KeyPairs,  \* "keys" mode: explicit set of <<row cfg, col cfg>>
          NQs,       \* "fixed" mode: set of <<a, b>> = n*Q = lambda z / (dx_in dx_out), same on both axes
          Slack,     \* CZT circular buffer sizes K = n + m - 1 + slack, slack \in Slack
          Pinned,    \* TRUE: the chirp-Z index arithmetic of the pinned tree (must violate CztExact)
          EmitOn

VARIABLES row, col, dir, req, done
vars == <<row, col, dir, req, done>>

AxisCfgs == [n : Ns, m : Ms, q : Qs, s : Ss]

---------------------------------------------------------------------------
(* textbook kernel *)
LOf(c)     == c.n * c.q[1] * c.s[2]
Xc(c, x)   == FftRange(c.n)[x]
Uc(c, k)   == FftRange(c.m)[k]
Textbook(c, d) == [k \in 1..c.m |-> [x \in 1..c.n |->
                     Mod(0 - d * Xc(c, x) * (Uc(c, k) * c.s[2] - c.s[1]) * c.q[2], LOf(c))]]
NormSq(c)  == <<c.q[2], c.n * c.q[1]>>          \* 1/(n Q) as <<num, den>>

\* zeta_L1^e1 = zeta_L2^e2 ?
SameRoot(e1, L1, e2, L2) == Mod(e1 * L2 - e2 * L1, L1 * L2) = 0
SameTable(E1, L1, E2, L2, m, n) == \A k \in 1..m, x \in 1..n : SameRoot(E1[k][x], L1, E2[k][x], L2)
\* E1 = E2 times a factor that depends on the output index only (a pure per-output phase)
PhaseOnly(E1, L1, E2, L2, m, n) == \A k \in 1..m, x \in 1..n :
    Mod(E1[k][x] * L2 - E2[k][x] * L1, L1 * L2) = Mod(E1[k][1] * L2 - E2[k][1] * L1, L1 * L2)

---------------------------------------------------------------------------
(* matrix-DFT route as the library builds it: BOTH coordinate vectors are shifted *)
L2Of(c) == c.n * c.q[1] * c.s[2] * c.s[2]
MdftImpl(c, d) == [k \in 1..c.m |-> [x \in 1..c.n |->
     Mod(0 - d * (Xc(c, x) * c.s[2] - c.s[1]) * (Uc(c, k) * c.s[2] - c.s[1]) * c.q[2], L2Of(c))]]

---------------------------------------------------------------------------
(* FFT route: pad n -> N = ceil(n Q) with the GridLib offset rule, then the full-period DFT of
   length N between origin-centred grids (ifftshift / fft / fftshift).                           *)
FftN(n, q)   == CeilMul(n, q)
FftCfg(n, q) == [n |-> n, m |-> FftN(n, q), q |-> RNorm(FftN(n, q), n), s |-> <<0, 1>>]
FftAxis(n, q, d) == LET N == FftN(n, q) IN
   [k \in 1..N |-> [x \in 1..n |-> Mod(0 - d * FftRange(N)[x + Off(n, N)] * FftRange(N)[k], N)]]

---------------------------------------------------------------------------
(* chirp-Z route: Bluestein.  Angles are carried in units of 1/(2 n qn sd^2) turns so that the
   half-integer chirps  -x^2/2 , +j^2/2 , -(u-s)^2/2  are integers.                              *)
LzOf(c) == 2 * c.n * c.q[1] * c.s[2] * c.s[2]
Sq(a) == a * a
\* specified design
ChirpB(c, x)  == 0 - Sq(Xc(c, x) * c.s[2])
ChirpA(c, k)  == IF Pinned THEN 0 - Sq(Uc(c, k) * c.s[2] + c.s[1])
                           ELSE 0 - Sq(Uc(c, k) * c.s[2] - c.s[1])
StartS(c)     == IF Pinned THEN (0 - ((c.n - c.m) \div 2)) * c.s[2] + c.s[1]
                           ELSE (Origin(c.m) - Origin(c.n)) * c.s[2] + c.s[1]
KernelH(c, l) == Sq(l * c.s[2] - StartS(c))                  \* l = k0 - x0, the lag
\* circular kernel buffer of length K: lags 0..m-1 at the front, lags -(n-1)..-1 at the back
BufLag(c, K, idx) == IF idx <= c.m - 1 THEN idx
                     ELSE IF idx >= K - c.n + 1 THEN idx - K
                     ELSE 999999                             \* zero-filled cell
CztAxis(c, d, K) == [k \in 1..c.m |-> [x \in 1..c.n |->
     LET lag == BufLag(c, K, Mod((k - 1) - (x - 1), K)) IN
     Mod(d * c.q[2] * (ChirpA(c, k) + ChirpB(c, x) + KernelH(c, lag)), LzOf(c))]]
CztBufferOK(c, K) == \A k \in 1..c.m, x \in 1..c.n :
     BufLag(c, K, Mod((k - 1) - (x - 1), K)) = (k - 1) - (x - 1)

---------------------------------------------------------------------------
(* 2-D pairing of the public arguments *)
Args(r, c) == [Q |-> <<r.q, c.q>>, out |-> <<r.m, c.m>>, shift |-> <<c.s, r.s>>, shape |-> <<r.n, c.n>>]
SwapT(t)   == <<t[2], t[1]>>

FixedCfg(n, m, nq, s) == [n |-> n, m |-> m, q |-> <<nq[1], nq[2] * n>>, s |-> s]

---------------------------------------------------------------------------
Init ==
  /\ done = FALSE
  /\ dir \in Dirs
  /\ CASE Mode = "axis"  -> row \in AxisCfgs /\ col = row /\ req = <<0, 1>>
       [] Mode = "pairs" -> /\ \/ (row \in AxisCfgs /\ col \in Partners)
                               \/ (row \in Partners /\ col \in AxisCfgs)
                            /\ req = <<0, 1>>
       [] Mode = "fft"   -> \E nr \in Ns, nc \in Ns, q \in Qs :
                               row = FftCfg(nr, q) /\ col = FftCfg(nc, q) /\ req = q
       [] Mode = "keys"  -> \E p \in KeyPairs : row = p[1] /\ col = p[2] /\ req = <<0, 1>>
       [] Mode = "fixed" -> \E nr \in Ns, nc \in Ns, mr \in Ms, mc \in Ms, nq \in NQs, sr \in Ss, sc \in Ss :
                               row = FixedCfg(nr, mr, nq, sr) /\ col = FixedCfg(nc, mc, nq, sc) /\ req = nq

Compute == done = FALSE /\ done' = TRUE /\ UNCHANGED <<row, col, dir, req>>
Next == Compute
Spec == Init /\ [][Next]_vars

---------------------------------------------------------------------------
(* laws, checked for the row axis of every state (in "axis" mode every axis configuration is a row) *)

\* C01: the matrix-DFT route equals the textbook kernel up to a per-output phase, exactly when s = 0
MdftLaw == /\ PhaseOnly(MdftImpl(row, dir), L2Of(row), Textbook(row, dir), LOf(row), row.m, row.n)
           /\ row.s[1] = 0 => SameTable(MdftImpl(row, dir), L2Of(row), Textbook(row, dir), LOf(row), row.m, row.n)

\* C01: the chirp-Z factorisation reproduces the textbook kernel up to a per-output phase for every
\*      buffer size, every parity pair and every shift (exactly when s = 0), and the buffer layout is sound
CztLaw == \A sl \in Slack : LET K == row.n + row.m - 1 + sl IN
           /\ CztBufferOK(row, K)
           /\ PhaseOnly(CztAxis(row, dir, K), LzOf(row), Textbook(row, dir), LOf(row), row.m, row.n)
           /\ row.s[1] = 0 => SameTable(CztAxis(row, dir, K), LzOf(row), Textbook(row, dir), LOf(row), row.m, row.n)

\* C01: inverse direction = complex conjugate
ConjLaw == \A k \in 1..row.m, x \in 1..row.n :
              Textbook(row, 0 - dir)[k][x] = Mod(0 - Textbook(row, dir)[k][x], LOf(row))

\* C01/C02: the padded FFT computes the textbook sum with Q' = N/n on all N samples; zero padding is injective
FftLaw == Mode = "fft" =>
   /\ \A a \in {row, col} :
        /\ SameTable(FftAxis(a.n, req, dir), a.m, Textbook(a, dir), LOf(a), a.m, a.n)
        /\ \A x1, x2 \in 1..a.n : (x1 + Off(a.n, a.m) = x2 + Off(a.n, a.m)) => x1 = x2
        /\ \A x \in 1..a.n : x + Off(a.n, a.m) \in 1..a.m

\* C02: band-complete kernels (m = n Q, Q >= 1) are isometries:  E^H E = m I  exactly in Z[zeta_L]
BandComplete(c) == c.m * c.q[2] = c.n * c.q[1] /\ c.q[1] >= c.q[2]
UnitaryLaw == BandComplete(row) =>
   LET L   == LOf(row)
       phi == Phi(L)
       tb  == Textbook(row, dir) IN
   \A x1, x2 \in 1..row.n :
      IsConstWith(CountVec([k \in 1..row.m |-> Mod(tb[k][x1] - tb[k][x2], L)], L), L, IF x1 = x2 THEN row.m ELSE 0, phi)

\* C02: the inverse transform with Q' = 1 onto n samples undoes the band-complete forward transform:
\*      SUM_u zeta^(Einv[x'][u]) zeta^(Efwd[u][x]) = m delta(x, x')   and the norms multiply to 1/m
BackCfg(c) == [n |-> c.m, m |-> c.n, q |-> <<1, 1>>, s |-> <<0, 1>>]
RoundTripLaw == (BandComplete(row) /\ row.s[1] = 0) =>
   LET b   == BackCfg(row)
       Lc  == LOf(row)                 \* = m * qd, a multiple of LOf(b) = m : common modulus
       f   == Lc \div LOf(b)
       phi == Phi(Lc)
       tf  == Textbook(row, dir)
       tbk == Textbook(b, 0 - dir) IN
   /\ LOf(b) * f = Lc
   /\ \A x, xp \in 1..row.n :
        IsConstWith(CountVec([u \in 1..row.m |-> Mod(tbk[xp][u] * f + tf[u][x], Lc)], Lc),
                    Lc, IF x = xp THEN row.m ELSE 0, phi)
   /\ NormSq(row)[1] * NormSq(b)[1] * row.m * row.m = NormSq(row)[2] * NormSq(b)[2]

\* C05: embedding invariance -- the same physical samples embedded in a longer zero-padded axis at the same
\*      spacing (so Q' = Q n / n') see the same kernel, whatever the parity of the padding
EmbedLaw == \A pad \in 1..3 :
   LET c2 == [row EXCEPT !.n = row.n + pad, !.q = <<row.q[1] * row.n, row.q[2] * (row.n + pad)>>] IN
   \A k \in 1..row.m, x \in 1..row.n :
      SameRoot(Textbook(row, dir)[k][x], LOf(row), Textbook(c2, dir)[k][x + Off(row.n, row.n + pad)], LOf(c2))

\* C05: to-mask-and-back is  T^H diag(mask) T.  With an all-pass mask on the whole band it is the identity
\*      (UnitaryLaw, including the shifted kernel: the return trip is the ADJOINT of the trip out, i.e. it uses the
\*      same shift in samples), and it is additive in the mask: the samples passed by a mask and by its complement
\*      partition the band, so their Gram contributions add up to the unmasked one (Babinet).
MaskLaw == \A pass \in SUBSET (1..row.m) :
   LET L  == LOf(row)
       tb == Textbook(row, dir)
       G(S, x1, x2) == CountVec([k \in S |-> Mod(tb[k][x1] - tb[k][x2], L)], L) IN
   \A x1, x2 \in 1..row.n :
      LET a == G(pass, x1, x2)  b == G((1..row.m) \ pass, x1, x2)  c == G(1..row.m, x1, x2) IN
      [e \in 0..(L - 1) |-> a[e] + b[e]] = c

\* C05: transposition -- swapping the axes swaps every per-axis public argument
TransposeLaw == /\ Args(col, row).Q = SwapT(Args(row, col).Q)
                /\ Args(col, row).out = SwapT(Args(row, col).out)
                /\ Args(col, row).shift = SwapT(Args(row, col).shift)
                /\ Args(col, row).shape = SwapT(Args(row, col).shape)

---------------------------------------------------------------------------
Rec == [kind |-> Mode, dir |-> dir, row |-> row, col |-> col, req |-> req,
        rowE |-> Textbook(row, dir), rowL |-> LOf(row), colE |-> Textbook(col, dir), colL |-> LOf(col),
        args |-> Args(row, col)]
\* "keys" mode also exports the kernel the matrix-DFT route is specified to build (both coordinate vectors shifted)
RecM == [kind |-> Mode, dir |-> dir, row |-> row, col |-> col, req |-> req,
         rowE |-> Textbook(row, dir), rowL |-> LOf(row), colE |-> Textbook(col, dir), colL |-> LOf(col),
         rowM |-> MdftImpl(row, dir), rowL2 |-> L2Of(row), colM |-> MdftImpl(col, dir), colL2 |-> L2Of(col),
         args |-> Args(row, col)]
Emit == (EmitOn /\ done) => PrintT(<<"EMIT", ToJson(IF Mode = "keys" THEN RecM ELSE Rec)>>)
=============================================================================

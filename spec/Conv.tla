-------------------------------- MODULE Conv --------------------------------
(* C15 -- image formation obeys the convolution theorem; the MTF is a valid MTF.

   Mode "conv": circular convolution of integer arrays about the origin n div 2 of each axis, written as the direct
                double sum (no Fourier transform anywhere); laws: identity / translation by an impulse, commutativity,
                linearity, product of totals.
   Mode "tf":   applying a list of transfer functions.  The spectrum of the object lives on a frequency grid whose
                layout depends on the convention (shifted: origin at n div 2; unshifted: origin at index 0, GridLib).
                Transfer functions are opaque factors; a callable is a factor-valued function of the frequency
                coordinate it is HANDED.  The result is, per frequency coordinate, the bag of factors applied there.
                GridFor = "same" is the specified design (a callable is handed the grid of the convention in use);
                GridFor = "shifted-always" is the pinned tree and must violate ConventionFree.
   Mode "otf":  exact |OTF|^2 of non-negative integer PSFs on axes whose cyclotomic order divides 6 or 4
                (2 cos(2 pi e / L) is an integer there), so MTF^2 is an exact rational.                              *)
EXTENDS Integers, Sequences, FiniteSets, FiniteSetsExt, TLC, Json, GridLib

CONSTANTS Mode, Shapes, GridFor, EmitOn

VARIABLES shape, sel, done
vars == <<shape, sel, done>>

R == shape[1]
C == shape[2]
Cells == (1..R) \X (1..C)
Co(p) == <<FftRange(R)[p[1]], FftRange(C)[p[2]]>>                       \* centred coordinate of a cell
CellAt(y, x) == <<Wrap(y + Origin(R) + 1, R), Wrap(x + Origin(C) + 1, C)>>   \* cell holding a (wrapped) coordinate

\* deterministic small-integer test arrays (all different enough that misplacements show)
ArrA == [p \in Cells |-> 1 + ((3 * p[1] + 5 * p[2]) % 7)]
ArrB == [p \in Cells |-> ((2 * p[1] + 7 * p[2]) % 5) - 1]
ArrC == [p \in Cells |-> ((p[1] * p[2] + p[1]) % 4)]
Delta(q) == [p \in Cells |-> IF p = q THEN 1 ELSE 0]
Total(a) == MapThenSumSet(LAMBDA p : a[p], Cells)

Conv(a, b) == [p \in Cells |->
   MapThenSumSet(LAMBDA q : a[q] * b[CellAt(Co(p)[1] - Co(q)[1], Co(p)[2] - Co(q)[2])], Cells)]
Add(a, b) == [p \in Cells |-> a[p] + b[p]]
Scale(k, a) == [p \in Cells |-> k * a[p]]
Translate(a, d) == [p \in Cells |-> a[CellAt(Co(p)[1] - d[1], Co(p)[2] - d[2])]]

ConvLaws == Mode = "conv" =>
   LET q == sel                                                         \* an impulse position (a cell)
       o == <<Origin(R) + 1, Origin(C) + 1>> IN
   /\ Conv(ArrA, Delta(o)) = ArrA                                       \* unit impulse at the origin: identity
   /\ Conv(ArrA, Delta(q)) = Translate(ArrA, Co(q))                     \* impulse at offset k: circular translation by k
   /\ Conv(ArrA, ArrB) = Conv(ArrB, ArrA)
   /\ Conv(ArrA, Add(ArrB, ArrC)) = Add(Conv(ArrA, ArrB), Conv(ArrA, ArrC))
   /\ Conv(Scale(3, ArrA), ArrB) = Scale(3, Conv(ArrA, ArrB))
   /\ Total(Conv(ArrA, ArrB)) = Total(ArrA) * Total(ArrB)

---------------------------------------------------------------------------
(* transfer functions *)
FreqOf(conv, p) == IF conv = "shifted" THEN <<FftRange(R)[p[1]], FftRange(C)[p[2]]>>
                                       ELSE <<FftFreq(R)[p[1]], FftFreq(C)[p[2]]>>
Handed(conv, p) == IF GridFor = "same" THEN FreqOf(conv, p) ELSE FreqOf("shifted", p)    \* grid a callable is evaluated on
\* a transfer function is a record: kind "array" (an opaque per-FREQUENCY factor, laid out for the convention in use)
\* or "callable" (an opaque function of the frequency coordinate it is handed)
Factor(tf, conv, p) == IF tf.k = "array" THEN <<tf.name, FreqOf(conv, p)>> ELSE <<tf.name, Handed(conv, p)>>
\* result of applying the list: per frequency coordinate, the bag (here: sequence sorted by list order) of factors
Apply(tfs, conv) == [f \in {FreqOf(conv, p) : p \in Cells} |->
                       LET p == CHOOSE c \in Cells : FreqOf(conv, c) = f IN [i \in 1..Len(tfs) |-> Factor(tfs[i], conv, p)]]
TfLists == {<< >>, <<[k |-> "array", name |-> "H1"]>>, <<[k |-> "callable", name |-> "g"]>>,
            <<[k |-> "array", name |-> "H1"], [k |-> "callable", name |-> "g"]>>,
            <<[k |-> "callable", name |-> "g"], [k |-> "callable", name |-> "h"], [k |-> "array", name |-> "H2"]>>}
TfLaws == Mode = "tf" =>
   /\ \A tfs \in TfLists :
        \* every frequency gets, from every transfer function, the factor that belongs to THAT frequency -- in both conventions
        /\ \A conv \in {"shifted", "unshifted"} : \A f \in DOMAIN Apply(tfs, conv) : \A i \in 1..Len(tfs) :
              Apply(tfs, conv)[f][i] = <<tfs[i].name, f>>
        /\ DOMAIN Apply(tfs, "shifted") = DOMAIN Apply(tfs, "unshifted")
        /\ \A f \in DOMAIN Apply(tfs, "shifted") : Apply(tfs, "shifted")[f] = Apply(tfs, "unshifted")[f]    \* ConventionFree
   /\ \A conv \in {"shifted", "unshifted"} : \A f \in DOMAIN Apply(<< >>, conv) : Apply(<< >>, conv)[f] = << >>   \* nothing applied: identity

---------------------------------------------------------------------------
(* OTF / MTF *)
Lcm == IF R % C = 0 THEN R ELSE IF C % R = 0 THEN C ELSE R * C        \* shapes are chosen with lcm in {1,2,3,4,6}
Mod(a, n) == ((a % n) + n) % n
\* 2 cos(2 pi e / L) for L in {1, 2, 3, 4, 6}
TC(e, L) == LET m == Mod(e, L) IN
   CASE L = 1 -> 2
     [] L = 2 -> IF m = 0 THEN 2 ELSE 0 - 2
     [] L = 3 -> IF m = 0 THEN 2 ELSE 0 - 1
     [] L = 4 -> IF m = 0 THEN 2 ELSE IF m = 2 THEN 0 - 2 ELSE 0
     [] L = 6 -> IF m = 0 THEN 2 ELSE IF m \in {1, 5} THEN 1 ELSE IF m \in {2, 4} THEN 0 - 1 ELSE 0 - 2
Psf == [p \in Cells |-> IF sel = <<1, 1>> THEN 1 + ((p[1] + 2 * p[2]) % 3)             \* two non-negative PSFs
                        ELSE (IF (p[1] * 3 + p[2]) % 4 = 0 THEN 0 ELSE ((p[1] + p[2]) % 3) + 1)]
\* 2 |OTF(k)|^2 = SUM_{x, x'} p[x] p[x'] 2cos(2 pi (k . (x - x')) / L),  k . d = ky dy L/R + kx dx L/C
TwoOtfSq(k) == MapThenSumSet(LAMBDA pq : Psf[pq[1]] * Psf[pq[2]] *
                   TC(k[1] * (Co(pq[1])[1] - Co(pq[2])[1]) * (Lcm \div R) + k[2] * (Co(pq[1])[2] - Co(pq[2])[2]) * (Lcm \div C), Lcm),
                   Cells \X Cells)
OtfLaws == Mode = "otf" =>
   LET s == Total(Psf) IN
   /\ TwoOtfSq(<<0, 0>>) = 2 * s * s                                   \* MTF(0) = 1
   /\ \A p \in Cells : TwoOtfSq(Co(p)) <= 2 * s * s /\ TwoOtfSq(Co(p)) >= 0        \* 0 <= MTF <= 1
   /\ \A p \in Cells : TwoOtfSq(Co(p)) = TwoOtfSq(<<0 - Co(p)[1], 0 - Co(p)[2]>>)  \* point symmetry

---------------------------------------------------------------------------
Init == /\ shape \in Shapes /\ done = FALSE
        /\ sel \in (IF Mode = "conv" THEN (1..shape[1]) \X (1..shape[2]) ELSE IF Mode = "otf" THEN {<<1, 1>>, <<1, 2>>} ELSE {<<1, 1>>})
Compute == done = FALSE /\ done' = TRUE /\ UNCHANGED <<shape, sel>>
Next == Compute
Spec == Init /\ [][Next]_vars

Flat(a) == [i \in 1..R |-> [j \in 1..C |-> a[<<i, j>>]]]
Rec == CASE Mode = "conv" -> [k |-> "conv", shape |-> shape, q |-> sel, a |-> Flat(ArrA), b |-> Flat(ArrB), c |-> Flat(ArrC),
                              ab |-> Flat(Conv(ArrA, ArrB)), adelta |-> Flat(Conv(ArrA, Delta(sel)))]
         [] Mode = "otf"  -> [k |-> "otf", shape |-> shape, psf |-> Flat(Psf), total |-> Total(Psf),
                              twootfsq |-> [i \in 1..R |-> [j \in 1..C |-> TwoOtfSq(Co(<<i, j>>))]]]
         [] OTHER         -> [k |-> "tf", shape |-> shape,
                              fshift |-> [i \in 1..R |-> [j \in 1..C |-> FreqOf("shifted", <<i, j>>)]],
                              fnat |-> [i \in 1..R |-> [j \in 1..C |-> FreqOf("unshifted", <<i, j>>)]]]
Emit == (EmitOn /\ done) => PrintT(<<"EMIT", ToJson(Rec)>>)
=============================================================================

------------------------------ MODULE SeqSweep ------------------------------
(* C08 -- sequence evaluation equals one-at-a-time evaluation.

   Mode "sweep":  the running-index sweep behind every one-index *_seq routine, as a step machine: a running order i from
                  0 to max(ns), the three-term recurrence state (labels of the polynomials held in Pn, Pn-1, Pn-2), a
                  running output slot, orders below `Seeds` special-cased before the loop, emit when ns[slot] = i.
                  Variant "value" emits P_i; variant "der" is the derivative sweep that emits  coef(i) * P~_(i-1)  of the
                  parameter-shifted family, with order 0 -> zero and order 1 -> a constant special-cased.
                  Terminal law: slot k of the output holds exactly the mode requested in slot k, for EVERY ascending request.
   Mode "lookup": the two-index families: per-|m| radial tables are swept once up to the largest radial index requested for
                  that |m|, then the requested (n, m) pairs are read out in REQUEST order (any order, repeats allowed).
   Mode "shape":  result shape = (number of orders, *coordinate shape) and the per-order normalisation vector must multiply
                  along axis 0 whatever the coordinate shape: numpy broadcasting is modelled exactly; ScaleRank = "full"
                  is the specified design (scale reshaped to (L, 1, ..., 1)), "column" is the pinned (L, 1) and must violate
                  ScaleAlongAxis0.                                                                                          *)
EXTENDS Integers, Sequences, FiniteSets, TLC, Json

CONSTANTS Mode, MaxOrder, SeedSet, Variants, Pairs, MaxReq, CoordShapes, ScaleRank, EmitOn

VARIABLES ns, seeds, variant, i, slot, out, pn, pnm1, pnm2, pc, req, tables, shapeCase
vars == <<ns, seeds, variant, i, slot, out, pn, pnm1, pnm2, pc, req, tables, shapeCase>>

Max(S) == CHOOSE x \in S : \A y \in S : x >= y
SeqOfSet(S) == LET RECURSIVE H(_, _)
                   H(T, acc) == IF T = {} THEN acc ELSE LET x == CHOOSE y \in T : \A z \in T : y <= z IN H(T \ {x}, Append(acc, x))
               IN H(S, << >>)
Requests == {SeqOfSet(S) : S \in (SUBSET (0..MaxOrder)) \ {{}}}

\* label of what a slot holds
ValLbl(n) == <<"P", n>>
DerLbl(n) == IF n = 0 THEN <<"zero">> ELSE IF n = 1 THEN <<"const", 1>> ELSE <<"coef*Pshift", n, n - 1>>

NullSweep == /\ ns = << >> /\ seeds = 0 /\ variant = "" /\ i = 0 /\ slot = 1 /\ out = << >> /\ pn = 0 /\ pnm1 = 0 /\ pnm2 = 0
Init ==
  CASE Mode = "sweep" ->
         /\ ns \in Requests /\ seeds \in SeedSet /\ variant \in Variants
         /\ i = 0 /\ slot = 1 /\ out = << >> /\ pn = 0 - 1 /\ pnm1 = 0 - 1 /\ pnm2 = 0 - 1 /\ pc = "seed"
         /\ req = << >> /\ tables = << >> /\ shapeCase = << >>
    [] Mode = "lookup" ->
         /\ NullSweep /\ pc = "tables" /\ tables = << >> /\ shapeCase = << >>
         /\ \E len \in 1..MaxReq : req \in [1..len -> Pairs]
    [] OTHER ->
         /\ NullSweep /\ pc = "shape" /\ req = << >> /\ tables = << >>
         /\ \E L \in 1..4, cs \in CoordShapes : shapeCase = [L |-> L, cs |-> cs]

Done == slot > Len(ns)
Emit1(lbl) == IF ~Done /\ ns[slot] = i THEN /\ out' = Append(out, lbl) /\ slot' = slot + 1
                                        ELSE UNCHANGED <<out, slot>>

\* --- value sweep: orders 0 .. seeds-1 are written out before the loop, each guarded by "if ns[slot] == order"
SeedStep == /\ pc = "seed" /\ variant = "value"
            /\ IF Done THEN pc' = "done" /\ UNCHANGED <<i, out, slot, pn, pnm1, pnm2>>
               ELSE IF i < seeds
                    THEN /\ Emit1(ValLbl(i))
                         /\ pn' = i /\ pnm1' = pn /\ pnm2' = pnm1
                         /\ i' = i + 1 /\ pc' = "seed"
                    ELSE pc' = "loop" /\ UNCHANGED <<i, out, slot, pn, pnm1, pnm2>>
            /\ UNCHANGED <<ns, seeds, variant, req, tables, shapeCase>>
LoopStep == /\ pc = "loop" /\ variant = "value"
            /\ IF Done \/ i > ns[Len(ns)] THEN pc' = "done" /\ UNCHANGED <<i, out, slot, pn, pnm1, pnm2>>
               ELSE /\ pn' = i /\ pnm1' = pn /\ pnm2' = pnm1                    \* P_i from P_(i-1), P_(i-2)
                    /\ Emit1(ValLbl(i))
                    /\ i' = i + 1 /\ pc' = "loop"
            /\ UNCHANGED <<ns, seeds, variant, req, tables, shapeCase>>

\* --- derivative sweep: d/dx P_i = coef(i) * P~_(i-1); the recurrence runs on the shifted family, one order behind
DerSeed == /\ pc = "seed" /\ variant = "der"
           /\ IF Done THEN pc' = "done" /\ UNCHANGED <<i, out, slot, pn, pnm1, pnm2>>
              ELSE IF i < 2
                   THEN /\ Emit1(DerLbl(i)) /\ i' = i + 1 /\ pc' = "seed"
                        /\ pn' = (IF i = 1 THEN 0 ELSE pn) /\ UNCHANGED <<pnm1, pnm2>>         \* P~_0 is available from order 1 on
                   ELSE pc' = "loop" /\ UNCHANGED <<i, out, slot, pn, pnm1, pnm2>>
           /\ UNCHANGED <<ns, seeds, variant, req, tables, shapeCase>>
DerLoop == /\ pc = "loop" /\ variant = "der"
           /\ IF Done \/ i > ns[Len(ns)] THEN pc' = "done" /\ UNCHANGED <<i, out, slot, pn, pnm1, pnm2>>
              ELSE /\ pn' = i - 1 /\ pnm1' = pn /\ pnm2' = pnm1                 \* advance the shifted family to order i - 1
                   /\ Emit1(<<"coef*Pshift", i, i - 1>>)
                   /\ i' = i + 1 /\ pc' = "loop"
           /\ UNCHANGED <<ns, seeds, variant, req, tables, shapeCase>>

\* --- two-index lookup
AbsV(x) == IF x < 0 THEN 0 - x ELSE x
Radial(p) == (p[1] - AbsV(p[2])) \div 2
Ams == {AbsV(req[k][2]) : k \in 1..Len(req)}
BuildTables == /\ pc = "tables"
               /\ tables' = [am \in Ams |-> [nj \in 0..Max({Radial(req[k]) : k \in {q \in 1..Len(req) : AbsV(req[q][2]) = am}}) |-> <<"R", am, nj>>]]
               /\ pc' = "read" /\ UNCHANGED <<ns, seeds, variant, i, slot, out, pn, pnm1, pnm2, req, shapeCase>>
ReadOut == /\ pc = "read"
           /\ out' = [k \in 1..Len(req) |-> <<tables[AbsV(req[k][2])][Radial(req[k])],
                                              IF req[k][2] < 0 THEN "sin" ELSE IF req[k][2] > 0 THEN "cos" ELSE "one", AbsV(req[k][2])>>]
           /\ pc' = "done" /\ UNCHANGED <<ns, seeds, variant, i, slot, pn, pnm1, pnm2, req, tables, shapeCase>>

ShapeStep == /\ pc = "shape" /\ pc' = "done" /\ UNCHANGED <<ns, seeds, variant, i, slot, out, pn, pnm1, pnm2, req, tables, shapeCase>>

Next == SeedStep \/ LoopStep \/ DerSeed \/ DerLoop \/ BuildTables \/ ReadOut \/ ShapeStep
Spec == Init /\ [][Next]_vars

---------------------------------------------------------------------------
\* the recurrence state always holds consecutive orders (what makes "emit Pn" mean "emit order i")
RecurrenceInv == (Mode = "sweep" /\ variant = "value" /\ pn >= 0) => (pnm1 \in {0 - 1, pn - 1} /\ (pnm1 >= 0 => pnm2 \in {0 - 1, pnm1 - 1}))
SweepLaw == (Mode = "sweep" /\ pc = "done") =>
   /\ Len(out) = Len(ns)
   /\ \A k \in 1..Len(ns) : out[k] = (IF variant = "value" THEN ValLbl(ns[k]) ELSE DerLbl(ns[k]))
LookupLaw == (Mode = "lookup" /\ pc = "done") =>
   /\ Len(out) = Len(req)
   /\ \A k \in 1..Len(req) : out[k] = <<<<"R", AbsV(req[k][2]), Radial(req[k])>>,
                                        IF req[k][2] < 0 THEN "sin" ELSE IF req[k][2] > 0 THEN "cos" ELSE "one", AbsV(req[k][2])>>

\* numpy broadcasting of the scale vector against the result
Ones(k) == [j \in 1..k |-> 1]
ResShape(L, cs) == <<L>> \o cs
ScaleShape(L, cs) == IF ScaleRank = "full" THEN <<L>> \o Ones(Len(cs)) ELSE <<L, 1>>
PadLeft(s, rank) == Ones(rank - Len(s)) \o s
Compatible(a, b) == \A k \in 1..Len(a) : a[k] = b[k] \/ a[k] = 1 \/ b[k] = 1
RECURSIVE Idx(_)
Idx(sh) == IF sh = << >> THEN {<< >>} ELSE {<<x>> \o t : x \in 1..Head(sh), t \in Idx(Tail(sh))}
ScaleAlongAxis0 == (Mode = "shape" /\ pc = "done") =>
   LET L == shapeCase.L  cs == shapeCase.cs
       res == ResShape(L, cs)
       rank == IF Len(res) > Len(ScaleShape(L, cs)) THEN Len(res) ELSE Len(ScaleShape(L, cs))
       a == PadLeft(res, rank)  b == PadLeft(ScaleShape(L, cs), rank) IN
   /\ Compatible(a, b)                                                     \* the product does not raise
   /\ [k \in 1..rank |-> IF a[k] > b[k] THEN a[k] ELSE b[k]] = PadLeft(res, rank) /\ rank = Len(res)   \* and keeps the result's shape
   /\ b[1] = L /\ \A k \in 2..rank : b[k] = 1          \* the L scale entries lie along axis 0: element (j, ...) is scaled by entry j

Rec == CASE Mode = "sweep" -> [k |-> "sweep", ns |-> ns, seeds |-> seeds, variant |-> variant, out |-> out]
         [] Mode = "lookup" -> [k |-> "lookup", req |-> req]
         [] OTHER -> [k |-> "shape", L |-> shapeCase.L, cs |-> shapeCase.cs, res |-> ResShape(shapeCase.L, shapeCase.cs)]
Emit == (EmitOn /\ pc = "done") => PrintT(<<"EMIT", ToJson(Rec)>>)
=============================================================================

---------------------------- MODULE ZernikeIndex ----------------------------
(* C11 -- single-index conventions are bijections onto the valid two-index orders.

   Integer-only, constructive definitions of the four conventions:
     Noll    (1-based)  radial order n = the unique n with Tri(n) < j <= Tri(n+1); position k = j - Tri(n);
                        |m| = 2 (k div 2) for even n, 2 ((k-1) div 2) + 1 for odd n; even j <-> cosine (m > 0)
     Fringe  (1-based)  group g = (n + |m|)/2 = the unique g with g^2 < j <= (g+1)^2; t = j - g^2 - 1;
                        n = g + t div 2, |m| = 2g - n, even t <-> cosine
     ANSI    (0-based)  j = (n (n + 2) + m) / 2 ; n = the unique n with Tri(n) <= j <= Tri(n) + n
     XY      (1-based)  degree d = the unique d with Tri(d) < j <= Tri(d+1); i = j - Tri(d) - 1; x^(d-i) y^i
   The machine walks the indices in blocks: the group numbers are carried incrementally and every state checks that
   they satisfy their DEFINING inequalities, the validity of the order, both round trips and the ordering rules.       *)
EXTENDS Integers, Sequences, TLC, Json

CONSTANTS J,          \* largest index examined
          Block,      \* indices per walk (walks run in parallel)
          EmitOn

VARIABLES j, nn, g, d, tab
vars == <<j, nn, g, d, tab>>

\* ANSI is 0-based: the walk visits ANSI index j - 1, whose radial order is the Noll radial order of j
Ja == j - 1
an == nn

Tri(n) == (n * (n + 1)) \div 2
Abs(x) == IF x < 0 THEN 0 - x ELSE x
Sgn(x) == IF x < 0 THEN 0 - 1 ELSE IF x > 0 THEN 1 ELSE 0
Valid(n, m) == n >= 0 /\ Abs(m) <= n /\ (n - Abs(m)) % 2 = 0

\* ---- forward maps, given the group number
NollM(jj, n) == LET k == jj - Tri(n)
                    a == IF n % 2 = 0 THEN 2 * (k \div 2) ELSE 2 * ((k - 1) \div 2) + 1 IN
                IF jj % 2 = 0 THEN a ELSE 0 - a
FringeNM(jj, gg) == LET t == jj - gg * gg - 1
                        n == gg + (t \div 2)
                        a == 2 * gg - n IN
                    <<n, IF t % 2 = 0 THEN a ELSE 0 - a>>
AnsiM(jj, n) == 2 * jj - n * (n + 2)
XyMN(jj, dd) == LET i == jj - Tri(dd) - 1 IN <<dd - i, i>>

\* ---- inverse maps (integer closed forms)
NollInv(n, m) == IF m = 0 THEN Tri(n) + 1
                 ELSE LET k0 == Abs(m)                                       \* the two positions with this |m| are k0, k0 + 1
                          j0 == Tri(n) + k0 IN
                      IF (j0 % 2 = 0) = (m > 0) THEN j0 ELSE j0 + 1
FringeInv(n, m) == LET gg == (n + Abs(m)) \div 2 IN
                   (gg + 1) * (gg + 1) - 2 * Abs(m) + (IF m < 0 THEN 1 ELSE 0)
AnsiInv(n, m) == (n * (n + 2) + m) \div 2
XyInv(mx, ny) == Tri(mx + ny) + 1 + ny

\* ---- integer square / triangular roots by search, used only to start a walk
RECURSIVE Up(_, _, _)
Up(x, target, kind) ==      \* smallest x with kind-bound(x) >= target
   IF (IF kind = "tri" THEN Tri(x + 1) ELSE (x + 1) * (x + 1)) >= target THEN x ELSE Up(x + 1, target, kind)

Starts == {1 + Block * b : b \in 0..((J - 1) \div Block)}
Init == /\ j \in Starts
        /\ nn = Up(0, j, "tri") /\ g = Up(0, j, "sq") /\ d = Up(0, j, "tri")
        /\ tab = << >>
Row == <<j, nn, NollM(j, nn), FringeNM(j, g)[1], FringeNM(j, g)[2], an, AnsiM(Ja, an), XyMN(j, d)[1], XyMN(j, d)[2]>>
Step == /\ j % Block # 0 /\ j < J
        /\ j' = j + 1
        /\ nn' = IF j + 1 > Tri(nn + 1) THEN nn + 1 ELSE nn
        /\ d'  = IF j + 1 > Tri(d + 1) THEN d + 1 ELSE d
        /\ g'  = IF j + 1 > (g + 1) * (g + 1) THEN g + 1 ELSE g
        /\ tab' = IF EmitOn THEN Append(tab, Row) ELSE tab
Next == Step
Spec == Init /\ [][Next]_vars

---------------------------------------------------------------------------
\* the carried group numbers satisfy their defining inequalities
Groups == /\ Tri(nn) < j /\ j <= Tri(nn + 1)
          /\ g * g < j /\ j <= (g + 1) * (g + 1)
          /\ Tri(an) <= Ja /\ Ja <= Tri(an) + an
          /\ Tri(d) < j /\ j <= Tri(d + 1)
NollOK == LET m == NollM(j, nn) IN
          /\ Valid(nn, m)
          /\ NollInv(nn, m) = j
          /\ (m # 0) => ((j % 2 = 0) <=> (m > 0))                 \* even index <-> cosine term
FringeOK == LET p == FringeNM(j, g) IN
            /\ Valid(p[1], p[2]) /\ (p[1] + Abs(p[2])) = 2 * g
            /\ FringeInv(p[1], p[2]) = j
AnsiOK == LET m == AnsiM(Ja, an) IN
          /\ Valid(an, m) /\ AnsiInv(an, m) = Ja /\ 2 * Ja = an * (an + 2) + m
XyOK == LET p == XyMN(j, d) IN
        /\ p[1] >= 0 /\ p[2] >= 0 /\ p[1] + p[2] = d /\ XyInv(p[1], p[2]) = j
\* surjectivity: every valid order up to the current radial order is hit by its inverse index, and maps back
Onto == \A m \in (0 - nn)..nn : Valid(nn, m) =>
           /\ LET jn == NollInv(nn, m) IN Tri(nn) < jn /\ jn <= Tri(nn + 1) /\ NollM(jn, nn) = m
           /\ LET ja == AnsiInv(nn, m) IN Tri(nn) <= ja /\ ja <= Tri(nn) + nn /\ AnsiM(ja, nn) = m
           /\ LET jf == FringeInv(nn, m)  gg == (nn + Abs(m)) \div 2 IN
                 gg * gg < jf /\ jf <= (gg + 1) * (gg + 1) /\ FringeNM(jf, gg) = <<nn, m>>
\* radial order never decreases along the Noll / ANSI / XY index
Ordered == [][nn' >= nn /\ d' >= d /\ g' >= g]_vars

Emit == (EmitOn /\ (j % Block = 0 \/ j = J)) => PrintT(<<"EMIT", ToJson([rows |-> Append(tab, Row)])>>)
=============================================================================

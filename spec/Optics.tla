------------------------------- MODULE Optics -------------------------------
(* C03 -- output sampling and coordinates are physically correct.

   A pupil of n samples at spacing dx (width D = n dx) carrying k waves of tilt along an axis focuses, at focal length
   efl and wavelength lam, to a spot displaced by  p = k lam efl / D  along that axis.  The model carries physical
   quantities as exact rationals (lam in microns, dx in mm, efl in mm, focal-plane lengths in microns) and derives, per
   axis, what each route must report:

     FFT route      N = ceil(n Q) samples, spacing  dx' = lam efl / (N dx),  spot at sample  k N / n  from the origin
     fixed sampling requested spacing dxo, Q = lam efl / (D dxo), spot at sample  k Q + s  (s = requested shift in samples)

   The spot sample is not postulated: TLC derives it from the exact Fourier kernel (the same exponent table as Dft.tla)
   with the cyclotomic zero test -- the tilted pupil produces exactly one non-vanishing output sample -- and checks that
   sample index times spacing equals the physical rule.                                                               *)
EXTENDS Integers, Sequences, FiniteSets, TLC, Json, GridLib, Rat, Cyclo

CONSTANTS Ns,        \* pupil samples per axis
          Lams, Efls, Dxs,
          Route,     \* "fft" | "fixed"
          Qs,        \* fft route: padding factors <<qn, qd>>
          NQs,       \* fixed route: n Q = lam efl/(dx dxo) as <<a, b>> (dxo is derived from it)
          Ms,        \* fixed route: output samples per axis
          Ss,        \* fixed route: shifts in output samples
          Ks,        \* waves of tilt across the aperture along an axis, <<num, den>>
          EmitOn

VARIABLES nr, nc, lam, efl, dx, q, nq, mr, mc, sr, sc, kr, kc, done
vars == <<nr, nc, lam, efl, dx, q, nq, mr, mc, sr, sc, kr, kc, done>>

LamEfl == RMul(lam, efl)                                   \* microns * mm / mm -> microns when divided by mm
Width(n) == RMul(RInt(n), dx)
SpotPos(n, k) == RDiv(RMul(k, LamEfl), Width(n))           \* k lam efl / D, microns

\* scalar helpers of the API
PupilToPsf(ps, samples) == RDiv(LamEfl, RMul(ps, RInt(samples)))
PsfToPupil(ps, samples) == RDiv(LamEfl, RMul(ps, RInt(samples)))
QForSampling(D, dxo)    == RDiv(RDiv(LamEfl, D), dxo)

\* ---- per-axis derived quantities
FftN(n)      == CeilMul(n, q)
FftDx(n)     == PupilToPsf(dx, FftN(n))                    \* true spacing of the FFT route along an axis of n samples
FftQ(n)      == RNorm(FftN(n), n)
Dxo          == RDiv(LamEfl, RMul(nq, dx))                 \* fixed route: the output spacing that makes n Q = nq
FixQ(n)      == RDiv(nq, RInt(n))

AxisQ(n)   == IF Route = "fft" THEN FftQ(n) ELSE FixQ(n)
AxisM(n, m) == IF Route = "fft" THEN FftN(n) ELSE m
AxisS(s)   == IF Route = "fft" THEN <<0, 1>> ELSE s
AxisDx(n)  == IF Route = "fft" THEN FftDx(n) ELSE Dxo
SpotIdx(n, s, k) == RAdd(RMul(k, AxisQ(n)), AxisS(s))      \* samples from the origin of the output array

\* ---- the kernel says the same: exponent table as in Dft.tla, tilted input exp(+2 pi i k X / n)
KL(n, qq, s) == n * qq[1] * s[2]
KExp(n, m, qq, s, u, x) == Mod(0 - FftRange(n)[x] * (FftRange(m)[u] * s[2] - s[1]) * qq[2], KL(n, qq, s))
\* with an integer number of waves k:  SUM_x zeta_n^(k X) zeta_L^(E[u][x])
Response(n, m, qq, s, k, u) ==
   LET L == KL(n, qq, s) IN
   CountVec([x \in 1..n |-> Mod(k * FftRange(n)[x] * (L \div n) + KExp(n, m, qq, s, u, x), L)], L)
\* all n terms of the response are in phase (maximal modulus n) exactly at these output samples
InPhase(n, m, s, k) ==
   LET qq == AxisQ(n)  ss == AxisS(s)  L == KL(n, qq, ss) IN
   {u \in 1..AxisM(n, m) : \E e \in 0..(L - 1) : Response(n, AxisM(n, m), qq, ss, k, u)[e] = n}
\* output samples on the critical lattice (u - s) = j Q, j integer, other than the spot: the response vanishes there
Lattice(n, m, s) == LET qq == AxisQ(n)  ss == AxisS(s) IN
   {u \in 1..AxisM(n, m) : ((FftRange(AxisM(n, m))[u] * ss[2] - ss[1]) * qq[2]) % (ss[2] * qq[1]) = 0}

Init == /\ nr \in Ns /\ nc \in Ns /\ lam \in Lams /\ efl \in Efls /\ dx \in Dxs
        /\ kr \in Ks /\ kc \in Ks /\ done = FALSE
        /\ IF Route = "fft" THEN q \in Qs /\ nq = <<0, 1>> /\ mr = 0 /\ mc = 0 /\ sr = <<0, 1>> /\ sc = <<0, 1>>
                            ELSE q = <<1, 1>> /\ nq \in NQs /\ mr \in Ms /\ mc \in Ms /\ sr \in Ss /\ sc \in Ss
Compute == done = FALSE /\ done' = TRUE /\ UNCHANGED <<nr, nc, lam, efl, dx, q, nq, mr, mc, sr, sc, kr, kc>>
Next == Compute
Spec == Init /\ [][Next]_vars

---------------------------------------------------------------------------
\* pupil <-> PSF spacing helpers are exact inverses of each other
HelperInverse == \A n \in {nr, nc} : LET N == AxisM(n, mr) IN
                    N > 0 => /\ PsfToPupil(PupilToPsf(dx, N), N) = dx
                             /\ PupilToPsf(PsfToPupil(dx, N), N) = dx
\* Q_for_sampling is consistent with the spacing helpers:  Q = lam efl / (D dxo)  <=>  dxo = lam efl / (n Q dx)
QConsistent == \A n \in {nr, nc} :
                  /\ QForSampling(Width(n), AxisDx(n)) = AxisQ(n)
                  /\ RMul(RMul(AxisQ(n), RInt(n)), RMul(dx, AxisDx(n))) = LamEfl
\* sample index times TRUE spacing is the physical displacement, for integer and fractional tilts, shifted or not
SpotPhysical == /\ RMul(RSub(SpotIdx(nr, sr, kr), AxisS(sr)), AxisDx(nr)) = SpotPos(nr, kr)
                /\ RMul(RSub(SpotIdx(nc, sc, kc), AxisS(sc)), AxisDx(nc)) = SpotPos(nc, kc)
\* the Fourier kernel puts the light exactly there (integer tilts whose spot falls on a sample of the output array)
OnSample(n, m, s, k) == k[2] = 1 /\ SpotIdx(n, s, k)[2] = 1
                        /\ SpotIdx(n, s, k)[1] + Origin(AxisM(n, m)) + 1 \in 1..AxisM(n, m)
                        /\ RLeq(RInt(AxisM(n, m)), RMul(AxisQ(n), RInt(n)))          \* output spans at most one period: no alias inside
AxisAgrees(n, m, s, k) == OnSample(n, m, s, k) =>
   LET spot == SpotIdx(n, s, k)[1] + Origin(AxisM(n, m)) + 1
       qq == AxisQ(n)  ss == AxisS(s)  L == KL(n, qq, ss)  phi == Phi(L) IN
   /\ InPhase(n, m, s, k[1]) = {spot}                       \* the unique global maximum of the modulus
   /\ spot \in Lattice(n, m, s)
   /\ \A u \in Lattice(n, m, s) \ {spot} : IsZeroWith(Response(n, AxisM(n, m), qq, ss, k[1], u), L, phi)
KernelAgrees == AxisAgrees(nr, mr, sr, kr) /\ AxisAgrees(nc, mc, sc, kc)

---------------------------------------------------------------------------
AxisRec(n, m, s, k) == [n |-> n, m |-> AxisM(n, m), Q |-> AxisQ(n), s |-> AxisS(s), k |-> k,
                        dxo |-> AxisDx(n), idx |-> SpotIdx(n, s, k), pos |-> SpotPos(n, k),
                        on |-> OnSample(n, m, s, k)]
Rec == [route |-> Route, lam |-> lam, efl |-> efl, dx |-> dx, q |-> q, nq |-> nq,
        row |-> AxisRec(nr, mr, sr, kr), col |-> AxisRec(nc, mc, sc, kc)]
Emit == (EmitOn /\ done) => PrintT(<<"EMIT", ToJson(Rec)>>)
=============================================================================

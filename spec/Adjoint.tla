------------------------------ MODULE Adjoint ------------------------------
(* C06 (linear part) -- every back-propagation routine of a LINEAR operation is the conjugate transpose of its forward routine.

   A reverse-mode TAPE MACHINE.  A program is a sequence of stages; Forward applies the next stage to the current value and
   pushes it on the tape; Backprop pops the tape and applies the stage's adjoint to the current gradient.  The machine carries
   the whole operator: `fw` holds the image of every input basis vector, `bw` the image of every output basis vector under
   the adjoint chain, so that at the end   A[o][i] = fw[i] at o   and   B[i][o] = bw[o] at i   and the law is
                         <y, A x> = <B y, x>   for all x, y      <=>      B[i][o] = conj(A[o][i])   for all i, o.
   Arithmetic is exact: an array entry is an element of Z[zeta_M] stored as its coefficient vector (0..M-1 -> Int) over a common
   denominator `den`; every stage matrix is "monomial" (each entry one term z * zeta^e), which covers DFT kernels, complex
   masks built from roots of unity, difference operators and real mode stacks.  Stages:

     dft       Y = Ey X Ex^T, the matrix-DFT kernels of fttools.MatrixDFTExecutor for an axis pair (n, m, Q, shift, direction):
               entry  zeta^(-dir (X - s)(U - s) / (n Q))  with both coordinate vectors shifted, origin at n div 2 (GridLib);
               real normalisation sqrt(1 / (n Q)) per axis, carried as  sc * sqrt(c2left)  with sc rational (NormLaw)
     mask      Y = m .* X                      adjoint   conj(m) .* Ybar
     int       Y = L X R^T with integer matrices (finite differences)      adjoint  L^T Ybar R
     modes     Y = SUM_k w_k M_k  (input: the K weights as a K x 1 array)  adjoint  wbar_k = SUM_ij M_k[i][j] Ybar[i][j]
     skipminus Y = X - body(X)                 adjoint   Ybar - body^H(Ybar),  body^H = adjoints of the body in REVERSE order

   Variants (must violate AdjointLaw): "no-conj" (mask not conjugated), "negated" (the pinned to_fpm_and_back_backprop),
   "forward-order" (adjoints of a body applied in forward order).                                                       *)
EXTENDS Integers, Sequences, FiniteSets, TLC, Json, GridLib, Rat

CONSTANTS Programs,      \* a SEQUENCE of programs [name, mod, shape, stages]
          Variant, EmitOn
VARIABLES prog, pc, phase, tape, fw, bw
vars == <<prog, pc, phase, tape, fw, bw>>

M == prog.mod
Mod(a, n) == ((a % n) + n) % n
CvZero == [e \in 0..(M - 1) |-> 0]
CvOne == [e \in 0..(M - 1) |-> IF e = 0 THEN 1 ELSE 0]
CvAdd(a, b) == [e \in 0..(M - 1) |-> a[e] + b[e]]
CvSub(a, b) == [e \in 0..(M - 1) |-> a[e] - b[e]]
CvTerm(z, s, v) == [e \in 0..(M - 1) |-> z * v[Mod(e - s, M)]]          \* z * zeta^s * v
CvConj(v) == [e \in 0..(M - 1) |-> v[Mod(0 - e, M)]]
\* sum of f over a product index set (1..r) \X (1..c) / an interval 1..n, without set operations
RECURSIVE CvSumTo(_, _, _)
CvSumTo(f, c, k) == IF k = 0 THEN CvZero ELSE CvAdd(f[<<((k - 1) \div c) + 1, ((k - 1) % c) + 1>>], CvSumTo(f, c, k - 1))
RECURSIVE CvSumSeq(_, _)
CvSumSeq(f, k) == IF k = 0 THEN CvZero ELSE CvAdd(f[k], CvSumSeq(f, k - 1))
CvSum2(f, r, c) == CvSumTo(f, c, r * c)

\* arrays: [r, c, den, v] ;  value = v / den
Arr(r, c, den, v) == [r |-> r, c |-> c, den |-> den, v |-> v]
Basis(r, c, i, j) == Arr(r, c, 1, [a \in 1..r |-> [b \in 1..c |-> IF a = i /\ b = j THEN CvOne ELSE CvZero]])
ArrNeg(X) == Arr(X.r, X.c, X.den, [a \in 1..X.r |-> [b \in 1..X.c |-> CvTerm(0 - 1, 0, X.v[a][b])]])
ArrSub(X, Y) == Arr(X.r, X.c, X.den * Y.den, [a \in 1..X.r |-> [b \in 1..X.c |-> CvSub(CvTerm(Y.den, 0, X.v[a][b]), CvTerm(X.den, 0, Y.v[a][b]))]])
\* equality of values (cross-multiplied denominators)
ArrEqConj(X, a, b, Y, c, d) == CvTerm(Y.den, 0, X.v[a][b]) = CvTerm(X.den, 0, CvConj(Y.v[c][d]))

\* ---- DFT kernels (one axis): exponent of zeta_L, L = n q1 s2^2
AxL(c) == c.n * c.q[1] * c.s[2] * c.s[2]
AxExp(c, d, k, x) == Mod(0 - d * (FftRange(c.n)[x] * c.s[2] - c.s[1]) * (FftRange(c.m)[k] * c.s[2] - c.s[1]) * c.q[2], AxL(c))
\* as an exponent of zeta_M
AxE(c, d, k, x) == AxExp(c, d, k, x) * (M \div AxL(c))
NormSq(c) == RNorm(c.q[2], c.n * c.q[1])                  \* 1 / (n Q)

ConjSign == IF Variant = "no-conj" THEN 1 ELSE 0 - 1
\* deformable mirror: actuator (a, b) sits at sample (iy[a], ix[b]) (0-based) of the n x n poke array; the surface is the CIRCULAR
\* convolution of the pokes with the influence function, moved by an integer number of samples (the Fourier ramp of `shift`),
\* then fftshift-ed (index n div 2 <- index 0), times the gain (2 for wavefront error, times the obliquity 1)
DmKernel(st, pr, pq, a, b) == st.ifn[Mod(pr - 1 - (st.n[1] \div 2) - st.shift[2] - st.iy[a], st.n[1]) + 1][Mod(pq - 1 - (st.n[2] \div 2) - st.shift[1] - st.ix[b], st.n[2]) + 1]
\* lattice of prepare_actuator_lattice along one axis: slice(neg, pos, sep)
LatNeg(n, nact, sep) == (n \div 2) + ((0 - nact) \div 2) * sep + (IF nact % 2 = 0 THEN sep \div 2 ELSE 0)
LatPos(n, nact, sep) == (n \div 2) + (nact \div 2) * sep + (IF nact % 2 = 0 THEN sep \div 2 ELSE 0)
LatCount(n, nact, sep) == ((LatPos(n, nact, sep) - LatNeg(n, nact, sep)) + sep - 1) \div sep
Lattice(n, nact, sep) == [j \in 1..LatCount(n, nact, sep) |-> LatNeg(n, nact, sep) + (j - 1) * sep]
\* ---- forward application of a stage
RECURSIVE Apply(_, _), ApplyAdj(_, _), Chain(_, _, _), AdjChain(_, _, _), AdjFwd(_, _, _)
Apply(st, X) ==
  CASE st.op = "dft" ->
         Arr(st.row.m, st.col.m, X.den * st.sc[2],
             [k \in 1..st.row.m |-> [l \in 1..st.col.m |->
                CvSum2([ij \in (1..st.row.n) \X (1..st.col.n) |-> CvTerm(st.sc[1], AxE(st.row, st.dir, k, ij[1]) + AxE(st.col, st.dir, l, ij[2]), X.v[ij[1]][ij[2]])], st.row.n, st.col.n)]])
    [] st.op = "mask" -> Arr(X.r, X.c, X.den, [a \in 1..X.r |-> [b \in 1..X.c |-> CvTerm(st.z[a][b], st.e[a][b], X.v[a][b])]])
    [] st.op = "int" ->
         Arr(Len(st.L), Len(st.R), X.den,
             [k \in 1..Len(st.L) |-> [l \in 1..Len(st.R) |->
                CvSum2([ij \in (1..X.r) \X (1..X.c) |-> CvTerm(st.L[k][ij[1]] * st.R[l][ij[2]], 0, X.v[ij[1]][ij[2]])], X.r, X.c)]])
    [] st.op = "modes" ->
         Arr(Len(st.modes[1]), Len(st.modes[1][1]), X.den,
             [a \in 1..Len(st.modes[1]) |-> [b \in 1..Len(st.modes[1][1]) |-> CvSumSeq([k \in 1..Len(st.modes) |-> CvTerm(st.modes[k][a][b], 0, X.v[k][1])], Len(st.modes))]])
    [] st.op = "dmconv" ->
         Arr(st.n[1], st.n[2], X.den,
             [pr \in 1..st.n[1] |-> [pq \in 1..st.n[2] |->
                CvSum2([ab \in (1..Len(st.iy)) \X (1..Len(st.ix)) |-> CvTerm(st.gain * DmKernel(st, pr, pq, ab[1], ab[2]), 0, X.v[ab[1]][ab[2]])], Len(st.iy), Len(st.ix))]])
    [] st.op = "padcrop" ->
         Arr(st.out[1], st.out[2], X.den,
             [a \in 1..st.out[1] |-> [b \in 1..st.out[2] |->
                LET i == a - Off(X.r, st.out[1])  j == b - Off(X.c, st.out[2]) IN
                IF i >= 1 /\ i <= X.r /\ j >= 1 /\ j <= X.c THEN X.v[i][j] ELSE CvZero]])
    [] st.op = "scale" -> Arr(X.r, X.c, X.den * st.sc[2], [a \in 1..X.r |-> [b \in 1..X.c |-> CvTerm(st.sc[1], 0, X.v[a][b])]])
    [] st.op = "real" -> Arr(X.r, X.c, X.den * 2, [a \in 1..X.r |-> [b \in 1..X.c |-> CvAdd(X.v[a][b], CvConj(X.v[a][b]))]])
    [] OTHER -> ArrSub(X, Chain(st.body, 1, X))
Chain(sts, k, X) == IF k > Len(sts) THEN X ELSE Chain(sts, k + 1, Apply(sts[k], X))

\* ---- adjoint application
ApplyAdj(st, Y) ==
  CASE st.op = "dft" ->
         Arr(st.row.n, st.col.n, Y.den * st.sc[2],
             [i \in 1..st.row.n |-> [j \in 1..st.col.n |->
                CvSum2([kl \in (1..st.row.m) \X (1..st.col.m) |-> CvTerm(st.sc[1], 0 - (AxE(st.row, st.dir, kl[1], i) + AxE(st.col, st.dir, kl[2], j)), Y.v[kl[1]][kl[2]])], st.row.m, st.col.m)]])
    [] st.op = "mask" -> Arr(Y.r, Y.c, Y.den, [a \in 1..Y.r |-> [b \in 1..Y.c |-> CvTerm(st.z[a][b], ConjSign * st.e[a][b], Y.v[a][b])]])
    [] st.op = "int" ->
         Arr(Len(st.L[1]), Len(st.R[1]), Y.den,
             [i \in 1..Len(st.L[1]) |-> [j \in 1..Len(st.R[1]) |->
                CvSum2([kl \in (1..Y.r) \X (1..Y.c) |-> CvTerm(st.L[kl[1]][i] * st.R[kl[2]][j], 0, Y.v[kl[1]][kl[2]])], Y.r, Y.c)]])
    [] st.op = "modes" ->
         Arr(Len(st.modes), 1, Y.den,
             [k \in 1..Len(st.modes) |-> [b \in 1..1 |-> CvSum2([ij \in (1..Y.r) \X (1..Y.c) |-> CvTerm(st.modes[k][ij[1]][ij[2]], 0, Y.v[ij[1]][ij[2]])], Y.r, Y.c)]])
    [] st.op = "dmconv" ->
         Arr(Len(st.iy), Len(st.ix), Y.den,
             [a \in 1..Len(st.iy) |-> [b \in 1..Len(st.ix) |->
                CvSum2([p \in (1..st.n[1]) \X (1..st.n[2]) |-> CvTerm(st.gain * DmKernel(st, p[1], p[2], a, b), 0, Y.v[p[1]][p[2]])], st.n[1], st.n[2])]])
    [] st.op = "padcrop" ->
         \* transpose of the embedding / restriction: back to the recorded input shape
         Arr(st.inn[1], st.inn[2], Y.den,
             [i \in 1..st.inn[1] |-> [j \in 1..st.inn[2] |->
                LET a == i + Off(st.inn[1], st.out[1])  b == j + Off(st.inn[2], st.out[2]) IN
                IF a >= 1 /\ a <= st.out[1] /\ b >= 1 /\ b <= st.out[2] THEN Y.v[a][b] ELSE CvZero]])
    [] st.op = "scale" -> Arr(Y.r, Y.c, Y.den * st.sc[2], [a \in 1..Y.r |-> [b \in 1..Y.c |-> CvTerm(st.sc[1], 0, Y.v[a][b])]])
    [] st.op = "real" -> Arr(Y.r, Y.c, Y.den * 2, [a \in 1..Y.r |-> [b \in 1..Y.c |-> CvAdd(Y.v[a][b], CvConj(Y.v[a][b]))]])
    [] OTHER -> LET inner == IF Variant = "forward-order" THEN AdjFwd(st.body, 1, Y) ELSE AdjChain(st.body, Len(st.body), Y) IN
                IF Variant = "negated" THEN ArrSub(Y, ArrNeg(inner)) ELSE ArrSub(Y, inner)
AdjChain(sts, k, Y) == IF k = 0 THEN Y ELSE AdjChain(sts, k - 1, ApplyAdj(sts[k], Y))
AdjFwd(sts, k, Y) == IF k > Len(sts) THEN Y ELSE AdjFwd(sts, k + 1, ApplyAdj(sts[k], Y))

InShape == prog.shape
NIn == InShape[1] * InShape[2]
InIdx == (1..InShape[1]) \X (1..InShape[2])

Init == /\ (\E k \in 1..Len(Programs) : prog = Programs[k]) /\ pc = 1 /\ phase = "forward" /\ tape = << >>
        /\ fw = [ij \in InIdx |-> Basis(InShape[1], InShape[2], ij[1], ij[2])]
        /\ bw = << >>
Forward == /\ phase = "forward" /\ pc <= Len(prog.stages)
           /\ fw' = [ij \in InIdx |-> Apply(prog.stages[pc], fw[ij])]
           /\ tape' = Append(tape, pc)
           /\ pc' = pc + 1
           /\ UNCHANGED <<prog, phase, bw>>
\* the upstream gradient arrives: one basis vector per output sample
Turn == /\ phase = "forward" /\ pc > Len(prog.stages)
        /\ LET any == fw[CHOOSE ij \in InIdx : TRUE] IN
           bw' = [kl \in (1..any.r) \X (1..any.c) |-> Basis(any.r, any.c, kl[1], kl[2])]
        /\ phase' = "backward"
        /\ UNCHANGED <<prog, pc, tape, fw>>
Backprop == /\ phase = "backward" /\ tape # << >>
            /\ LET top == tape[Len(tape)] IN bw' = [kl \in DOMAIN bw |-> ApplyAdj(prog.stages[top], bw[kl])]
            /\ tape' = SubSeq(tape, 1, Len(tape) - 1)
            /\ UNCHANGED <<prog, pc, phase, fw>>
Finish == /\ phase = "backward" /\ tape = << >> /\ phase' = "done" /\ UNCHANGED <<prog, pc, tape, fw, bw>>
Next == Forward \/ Turn \/ Backprop \/ Finish
Spec == Init /\ [][Next]_vars

\* ---- laws
TapeDiscipline == /\ (phase = "forward" => tape = [k \in 1..(pc - 1) |-> k])
                  /\ (phase = "done" => tape = << >>)
ShapeLaw == phase = "done" => \A kl \in DOMAIN bw : bw[kl].r = InShape[1] /\ bw[kl].c = InShape[2]
\* programs that take a real part are real-linear maps between real arrays: the law holds in the real inner product
IsReal == "real" \in DOMAIN prog /\ prog.real
ArrEqRe(X, a, b, Y, c, d) == CvTerm(Y.den, 0, CvAdd(X.v[a][b], CvConj(X.v[a][b]))) = CvTerm(X.den, 0, CvAdd(Y.v[c][d], CvConj(Y.v[c][d])))
AdjointLaw == phase = "done" => \A ij \in InIdx : \A kl \in DOMAIN bw :
                 IF IsReal THEN ArrEqRe(bw[kl], ij[1], ij[2], fw[ij], kl[1], kl[2]) ELSE ArrEqConj(bw[kl], ij[1], ij[2], fw[ij], kl[1], kl[2])
\* the actuator lattice of a DM stage is the one prepare_actuator_lattice builds, and lies inside the poke array
LatticeLaw == \A k \in 1..Len(prog.stages) : prog.stages[k].op = "dmconv" =>
                 LET st == prog.stages[k] IN
                 /\ st.iy = Lattice(st.n[1], st.nact, st.sep) /\ st.ix = Lattice(st.n[2], st.nact, st.sep)
                 /\ \A j \in 1..Len(st.iy) : st.iy[j] >= 0 /\ st.iy[j] < st.n[1]
                 /\ \A j \in 1..Len(st.ix) : st.ix[j] >= 0 /\ st.ix[j] < st.n[2]
\* the rational part of the normalisation of every DFT stage: sc^2 * c2left = 1 / (n Q)_row / (n Q)_col
RECURSIVE NormOk(_)
NormOk(sts) == \A k \in 1..Len(sts) :
                 CASE sts[k].op = "dft" -> /\ RMul(RMul(sts[k].sc, sts[k].sc), sts[k].c2left) = RMul(NormSq(sts[k].row), NormSq(sts[k].col))
                                           /\ M % AxL(sts[k].row) = 0 /\ M % AxL(sts[k].col) = 0
                   [] sts[k].op = "skipminus" -> NormOk(sts[k].body)
                   [] OTHER -> TRUE
NormLaw == NormOk(prog.stages)
\* not vacuous: the operator is not zero
Nonzero == phase = "done" => \E ij \in InIdx : \E a \in 1..fw[ij].r, b \in 1..fw[ij].c : fw[ij].v[a][b] # CvZero

CvList(v) == [e \in 1..M |-> v[e - 1]]
Rec == [name |-> prog.name, mod |-> M, shape |-> InShape,
        A |-> [ij \in 1..NIn |-> LET X == fw[<<((ij - 1) \div InShape[2]) + 1, ((ij - 1) % InShape[2]) + 1>>] IN
                                 [den |-> X.den, v |-> [a \in 1..X.r |-> [b \in 1..X.c |-> CvList(X.v[a][b])]]]],
        B |-> LET any == fw[CHOOSE ij \in InIdx : TRUE] IN
              [kl \in 1..(any.r * any.c) |-> LET Y == bw[<<((kl - 1) \div any.c) + 1, ((kl - 1) % any.c) + 1>>] IN
                                 [den |-> Y.den, v |-> [a \in 1..Y.r |-> [b \in 1..Y.c |-> CvList(Y.v[a][b])]]]]]
Emit == (EmitOn /\ phase = "done") => PrintT(<<"EMIT", ToJson(Rec)>>)
=============================================================================

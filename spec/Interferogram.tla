---------------------------- MODULE Interferogram ----------------------------
(* C12 -- Interferogram data, mask and coordinates stay coherent over any history.

   Abstract state of a prysm.interferogram.Interferogram:
     shape, dx         the data array's shape and the sample spacing
     invalid           set of <<row, col>> (1-based, current array) holding NaN
     cxy               the lazily materialised Cartesian coordinate cache: None or a descriptor
                       [shape, dx, org] (org = 0-based <<row, col>> index at which the coordinate is zero;
                       it may lie outside the array after a crop)
     crt               the polar cache: None or the descriptor of the Cartesian grid it was derived from
   One action per public method / property; every mutator's effect on every cache is explicit.
   Pinned = TRUE reproduces the pinned tree (strip_latcal / latcal / pad forget the polar cache) and must
   violate Coherent (vacuity guard).                                                                        *)
EXTENDS Integers, Sequences, FiniteSets, TLC, Json, GridLib, Rat

CONSTANTS Shapes,     \* initial shapes, set of <<r, c>>
          MaxR, MaxC, \* pads are enabled while the result fits
          Dx0s,       \* initial spacings <<num, den>>
          Scales,     \* latcal arguments
          Rules,      \* named masks: subset of {"edge", "center", "disc", "corner"}
          Pinned,
          Depth, Bounded, EmitOn, EmitLen

VARIABLES shape, dx, invalid, cxy, crt, hist, init, lastop
vars == <<shape, dx, invalid, cxy, crt, hist, init, lastop>>

None == [k |-> "none"]
Descr(sh, d, o) == [k |-> "some", shape |-> sh, dx |-> d, org |-> o]
Centre(sh) == <<Origin(sh[1]), Origin(sh[2])>>
Fresh == Descr(shape, dx, Centre(shape))
Cells(sh) == (1..sh[1]) \X (1..sh[2])

\* named masks: the set of cells KEPT
Keep(rule, sh) ==
  CASE rule = "edge"   -> {p \in Cells(sh) : p[1] > 1 /\ p[2] < sh[2]}                 \* drops first row, last column
    [] rule = "corner" -> {p \in Cells(sh) : ~(p[1] = sh[1] /\ p[2] = 1)}              \* one corner sample: bbox unchanged
    [] rule = "center" -> Cells(sh) \ {<<Origin(sh[1]) + 1, Origin(sh[2]) + 1>>}       \* interior dropout
    [] rule = "disc"   -> {p \in Cells(sh) :
                             LET y == p[1] - 1 - Origin(sh[1])  x == p[2] - 1 - Origin(sh[2])
                                 rad == (IF sh[1] < sh[2] THEN sh[1] ELSE sh[2]) \div 2 IN
                             y * y + x * x <= rad * rad}
    [] OTHER           -> Cells(sh)

\* bounding box of the valid samples: <<top, bottom, left, right>> counts of all-invalid rows / columns removed
Valid == Cells(shape) \ invalid
RowsV == {p[1] : p \in Valid}
ColsV == {p[2] : p \in Valid}
Min(S) == CHOOSE x \in S : \A y \in S : x <= y
Max(S) == CHOOSE x \in S : \A y \in S : x >= y

Init == /\ shape \in Shapes /\ dx \in Dx0s
        /\ \E rule \in Rules \cup {"none"} : invalid = Cells(shape) \ Keep(rule, shape)
        /\ cxy = None /\ crt = None /\ hist = << >>
        /\ init = [shape |-> shape, dx |-> dx, invalid |-> invalid]
        /\ lastop = ""

Room == Bounded => Len(hist) < Depth
Log(a) == /\ hist' = (IF Len(hist) < Depth THEN Append(hist, a) ELSE hist)
          /\ lastop' = a.op
Op(name) == [op |-> name, rule |-> "", pr |-> 0, pc |-> 0, nan |-> FALSE, s |-> <<0, 1>>]

XY  == IF cxy = None THEN Fresh ELSE cxy          \* what reading .x / .y returns (and leaves cached)

ReadXY == /\ Room /\ cxy' = XY /\ UNCHANGED <<shape, dx, invalid, crt, init>> /\ Log(Op("read_xy"))
ReadRT == /\ Room /\ cxy' = XY /\ crt' = (IF crt = None THEN XY ELSE crt)
          /\ UNCHANGED <<shape, dx, invalid, init>> /\ Log(Op("read_rt"))

Shift(d, top, left, sh2) == IF d = None THEN None ELSE Descr(sh2, d.dx, <<d.org[1] - top, d.org[2] - left>>)
Crop ==
  /\ Room
  /\ IF Valid = {} \/ (Min(RowsV) = 1 /\ Max(RowsV) = shape[1] /\ Min(ColsV) = 1 /\ Max(ColsV) = shape[2])
     THEN UNCHANGED <<shape, invalid, cxy, crt>>
     ELSE LET top == Min(RowsV) - 1  left == Min(ColsV) - 1
              sh2 == <<Max(RowsV) - Min(RowsV) + 1, Max(ColsV) - Min(ColsV) + 1>> IN
          /\ shape' = sh2
          /\ invalid' = {<<p[1] - top, p[2] - left>> : p \in {q \in invalid : q[1] - top \in 1..sh2[1] /\ q[2] - left \in 1..sh2[2]}}
          /\ cxy' = Shift(cxy, top, left, sh2)
          /\ crt' = Shift(crt, top, left, sh2)
  /\ UNCHANGED <<dx, init>> /\ Log(Op("crop"))

\* pad = pad2d(data) . strip_latcal . rescale  -- three steps in the code, one public call
Pad(pr, pc, nan) ==
  /\ Room /\ (pr > 0 \/ pc > 0)
  /\ shape[1] + pr <= MaxR /\ shape[2] + pc <= MaxC
  /\ LET sh2 == <<shape[1] + pr, shape[2] + pc>>
         oy == Off(shape[1], sh2[1])  ox == Off(shape[2], sh2[2])
         moved == {<<p[1] + oy, p[2] + ox>> : p \in invalid}
         old == {<<p[1] + oy, p[2] + ox>> : p \in Cells(shape)} IN
     /\ shape' = sh2
     /\ invalid' = moved \cup (IF nan THEN Cells(sh2) \ old ELSE {})
     /\ cxy' = Descr(sh2, dx, Centre(sh2))
     /\ crt' = IF Pinned THEN crt ELSE None
  /\ UNCHANGED <<dx, init>> /\ Log([Op("pad") EXCEPT !.pr = pr, !.pc = pc, !.nan = nan])

Mask(rule) == /\ Room /\ invalid' = invalid \cup (Cells(shape) \ Keep(rule, shape))
              /\ UNCHANGED <<shape, dx, cxy, crt, init>> /\ Log([Op("mask") EXCEPT !.rule = rule])
Fill == /\ Room /\ invalid' = {} /\ UNCHANGED <<shape, dx, cxy, crt, init>> /\ Log(Op("fill"))
\* spike_clip invalidates the samples beyond n sigma: some superset S of the invalid set
SpikeClip(S) == /\ Room /\ invalid \subseteq S /\ S \subseteq Cells(shape) /\ invalid' = S
                /\ UNCHANGED <<shape, dx, cxy, crt, init>> /\ Log(Op("spike_clip"))
RemovePiston == /\ Room /\ UNCHANGED <<shape, dx, invalid, cxy, crt, init>> /\ Log(Op("remove_piston"))
RemoveTilt   == /\ Room /\ cxy' = XY /\ UNCHANGED <<shape, dx, invalid, crt, init>> /\ Log(Op("remove_tiptilt"))   \* fits against x, y
RemovePower  == /\ Room /\ UNCHANGED <<shape, dx, invalid, cxy, crt, init>> /\ Log(Op("remove_power"))
Stats        == /\ Room /\ UNCHANGED <<shape, dx, invalid, cxy, crt, init>> /\ Log(Op("stats"))
Recenter == /\ Room /\ cxy' = Descr(shape, XY.dx, Centre(shape)) /\ crt' = None
            /\ UNCHANGED <<shape, dx, invalid, init>> /\ Log(Op("recenter"))
Latcal(s) == /\ Room /\ dx' = s /\ cxy' = Descr(shape, s, Centre(shape)) /\ crt' = (IF Pinned THEN crt ELSE None)
             /\ UNCHANGED <<shape, invalid, init>> /\ Log([Op("latcal") EXCEPT !.s = s])
StripLatcal == /\ Room /\ dx' = <<1, 1>> /\ cxy' = Descr(shape, <<1, 1>>, Centre(shape)) /\ crt' = (IF Pinned THEN crt ELSE None)
               /\ UNCHANGED <<shape, invalid, init>> /\ Log(Op("strip_latcal"))
\* filtering is specified on NaN-free maps (it is an FFT of the data); it reads r
Filter == /\ Room /\ invalid = {} /\ cxy' = XY /\ crt' = (IF crt = None THEN XY ELSE crt)
          /\ UNCHANGED <<shape, dx, invalid, init>> /\ Log(Op("filter"))

\* the model explores two outcomes (nothing clipped; the first valid sample clipped) -- the trace specification accepts any superset
SpikeSome == SpikeClip(invalid) \/ (Valid # {} /\ SpikeClip(invalid \cup {CHOOSE p \in Valid : \A q \in Valid : p[1] < q[1] \/ (p[1] = q[1] /\ p[2] <= q[2])}))
Next == \/ ReadXY \/ ReadRT \/ Crop \/ Fill \/ SpikeSome \/ RemovePiston \/ RemoveTilt \/ RemovePower \/ Stats
        \/ Recenter \/ StripLatcal \/ Filter
        \/ \E rule \in Rules : Mask(rule)
        \/ \E s \in Scales : Latcal(s)
        \/ \E pr \in 0..2, pc \in 0..2, nan \in BOOLEAN : Pad(pr, pc, nan)
Spec == Init /\ [][Next]_vars

---------------------------------------------------------------------------
TypeOK == /\ invalid \subseteq Cells(shape)
          /\ cxy.k \in {"none", "some"} /\ crt.k \in {"none", "some"}
\* every materialised coordinate cache has the data's shape and the current spacing; polar = polar of current Cartesian
Coherent == /\ cxy # None => (cxy.shape = shape /\ cxy.dx = dx)
            /\ crt # None => (cxy # None /\ crt = cxy)
\* steps that do not claim to change validity leave the invalid set alone (shape-changing steps only relabel)
ValidityPreserved ==
  [][ lastop' \in {"read_xy", "read_rt", "remove_piston", "remove_tiptilt", "remove_power", "stats", "recenter",
                   "latcal", "strip_latcal", "filter"} => invalid' = invalid ]_vars
\* cropping keeps every valid sample, leaves a tight bounding box, and is therefore idempotent
CropKeepsValid == [][ lastop' = "crop" => Cardinality(Cells(shape') \ invalid') = Cardinality(Valid) ]_vars
CropTight == (lastop = "crop" /\ Valid # {}) =>
                (Min(RowsV) = 1 /\ Max(RowsV) = shape[1] /\ Min(ColsV) = 1 /\ Max(ColsV) = shape[2])

View == <<shape, dx, invalid, cxy, crt>>
\* state constraint for the directed exploration "read polar coordinates, change something, read again, ...":
\* odd positions of the history are reads of r / t (which also cache x / y), even positions are anything else
Alternating == \A k \in 1..Len(hist) : ((k % 2) = 1) <=> (hist[k].op = "read_rt")
Rec == [init |-> init, hist |-> hist]
Emit == (EmitOn /\ (EmitLen = 0 \/ Len(hist) = EmitLen)) => PrintT(<<"EMIT", ToJson(Rec)>>)
=============================================================================

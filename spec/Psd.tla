--------------------------------- MODULE Psd ---------------------------------
(* C13 -- the PSD is power-normalised and the band-limited RMS adds up.

   A height map h and a window w are small integer arrays on shapes whose axis lengths have cyclotomic order in
   {1, 2, 3, 4, 6} (and whose lcm is again in that set), so that |FFT(h w)|^2 is an exact integer:
        2 |F(k)|^2 = SUM_{x, x'} (hw)[x] (hw)[x'] 2 cos(2 pi k.(x - x') / L)
   PSD = |F|^2 / (S2 fs^2),  S2 = SUM w^2,  fs = 1/dx;  the frequency of cell (i, j) is FftRange / (n dx) (GridLib:
   zero frequency at index n div 2 on BOTH axes, odd or even).  A band [lo, hi) is an exact predicate on fy^2 + fx^2
   (lower edge included, upper edge excluded, except that hi = "top" includes everything): bands that share an edge
   partition the cells, which is what makes band RMS add in quadrature for the linear trapezoid rule.
   Trapezoid weights (1 inside, 1/2 at the two ends of an axis) are explicit; everything is carried multiplied by 8
   so that it stays integral:  rms^2(band) = Band8(band) / (8 S2 nr nc).                                          *)
EXTENDS Integers, Sequences, FiniteSets, FiniteSetsExt, TLC, Json, GridLib

CONSTANTS Shapes, Dxs, Edges, WindowKinds, EmitOn
VARIABLES shape, dx, wk, done,
          spec2      \* 2 |F|^2 per cell, computed ONCE by the Compute step (zero frequency at (R div 2, C div 2))
vars == <<shape, dx, wk, done, spec2>>

R == shape[1]
C == shape[2]
Cells == (1..R) \X (1..C)
Co(p) == <<FftRange(R)[p[1]], FftRange(C)[p[2]]>>
Lcm == IF R % C = 0 THEN R ELSE IF C % R = 0 THEN C ELSE R * C
Mod(a, n) == ((a % n) + n) % n
TC(e, L) == LET m == Mod(e, L) IN
   CASE L = 1 -> 2
     [] L = 2 -> IF m = 0 THEN 2 ELSE 0 - 2
     [] L = 3 -> IF m = 0 THEN 2 ELSE 0 - 1
     [] L = 4 -> IF m = 0 THEN 2 ELSE IF m = 2 THEN 0 - 2 ELSE 0
     [] L = 6 -> IF m = 0 THEN 2 ELSE IF m \in {1, 5} THEN 1 ELSE IF m \in {2, 4} THEN 0 - 1 ELSE 0 - 2

H == [p \in Cells |-> ((3 * p[1] + 5 * p[2] + p[1] * p[2]) % 7) - 3]                     \* height map, mixed signs
W == [p \in Cells |-> CASE wk = "ones" -> 1
                        [] wk = "taper" -> 1 + (IF p[1] \in {1, R} THEN 0 ELSE 1) + (IF p[2] \in {1, C} THEN 0 ELSE 1)
                        [] OTHER -> 1 + ((p[1] + 2 * p[2]) % 3)]                              \* "user": an arbitrary positive array
HW == [p \in Cells |-> H[p] * W[p]]
S2 == MapThenSumSet(LAMBDA p : W[p] * W[p], Cells)
TwoFsq(k) == MapThenSumSet(LAMBDA pq : HW[pq[1]] * HW[pq[2]] *
                 TC(k[1] * (Co(pq[1])[1] - Co(pq[2])[1]) * (Lcm \div R) + k[2] * (Co(pq[1])[2] - Co(pq[2])[2]) * (Lcm \div C), Lcm), Cells \X Cells)
Spec2 == spec2

\* band membership: lo^2 <= fy^2 + fx^2 < hi^2 , f = k / (n dx), dx = dx[1]/dx[2], edge = e[1]/e[2] ; "top" = <<0, 0>>
F2num(p) == dx[2] * dx[2] * (Co(p)[1] * Co(p)[1] * C * C + Co(p)[2] * Co(p)[2] * R * R)        \* f^2 = F2num / F2den
F2den == dx[1] * dx[1] * R * R * C * C
GeqEdge(p, e) == e[1] * e[1] * F2den <= F2num(p) * e[2] * e[2]                                  \* f >= e
InBand(p, lo, hi) == GeqEdge(p, lo) /\ (hi = <<0, 0>> \/ ~GeqEdge(p, hi))
BandCells(lo, hi) == {p \in Cells : InBand(p, lo, hi)}
\* twice the trapezoid weight along an axis of n samples
TW(i, n) == IF n = 1 THEN 0 ELSE IF i = 1 \/ i = n THEN 1 ELSE 2
Band8(lo, hi) == MapThenSumSet(LAMBDA p : TW(p[1], R) * TW(p[2], C) * Spec2[p], BandCells(lo, hi))
Plain8(S) == MapThenSumSet(LAMBDA p : 4 * Spec2[p], S)                                          \* rectangle rule, same scale

Less(a, b) == IF b = <<0, 0>> THEN a # <<0, 0>> ELSE IF a = <<0, 0>> THEN FALSE ELSE a[1] * b[2] < b[1] * a[2]
Zero == <<0, 1>>
Top == <<0, 0>>

Init == shape \in Shapes /\ dx \in Dxs /\ wk \in WindowKinds /\ done = FALSE /\ spec2 = << >>
Compute == done = FALSE /\ done' = TRUE /\ spec2' = [p \in Cells |-> TwoFsq(Co(p))] /\ UNCHANGED <<shape, dx, wk>>
Next == Compute
Spec == Init /\ [][Next]_vars

\* Parseval: SUM PSD dfy dfx = SUM (hw)^2 / S2   <=>   SUM 2|F|^2 = 2 R C SUM (hw)^2
Parseval == done => MapThenSumSet(LAMBDA p : Spec2[p], Cells) = 2 * R * C * MapThenSumSet(LAMBDA p : HW[p] * HW[p], Cells)
\* the zero-frequency sample is the squared total, and sits at the origin index of both axes
DcAtOrigin == done => Spec2[<<Origin(R) + 1, Origin(C) + 1>>] = 2 * MapThenSumSet(LAMBDA p : HW[p], Cells) * MapThenSumSet(LAMBDA p : HW[p], Cells)
Hermitian == done => \A p \in Cells : Spec2[p] = TwoFsq(<<0 - Co(p)[1], 0 - Co(p)[2]>>) /\ Spec2[p] >= 0
\* the PSD is a function of the CURRENT heights and quadratic in them: doubling the map quadruples every sample (what a result
\* remembered from before an in-place change of the data would get wrong)
TwoFsqOf(hw2, k) == MapThenSumSet(LAMBDA pq : hw2[pq[1]] * hw2[pq[2]] *
                 TC(k[1] * (Co(pq[1])[1] - Co(pq[2])[1]) * (Lcm \div R) + k[2] * (Co(pq[1])[2] - Co(pq[2])[2]) * (Lcm \div C), Lcm), Cells \X Cells)
Homogeneous == done => \A p \in Cells : TwoFsqOf([q \in Cells |-> 2 * HW[q]], Co(p)) = 4 * Spec2[p]
\* adjacent bands partition, so band power adds; widening a band never removes a cell
Additive == done => \A a \in Edges, b \in Edges, c \in Edges \cup {Top} : (Less(a, b) /\ Less(b, c)) =>
               /\ BandCells(a, b) \cap BandCells(b, c) = {}
               /\ BandCells(a, b) \cup BandCells(b, c) = BandCells(a, c)
               /\ Band8(a, b) + Band8(b, c) = Band8(a, c)
Monotone == done => \A a \in Edges, b \in Edges, c \in Edges \cup {Top} : (Less(a, b) /\ Less(b, c)) => Band8(a, b) <= Band8(a, c) /\ Band8(b, c) <= Band8(a, c)
\* over the full band the trapezoid value differs from the rectangle value (= windowed mean square, Parseval) by no more than the outermost samples' weight
Outer == {p \in Cells : p[1] \in {1, R} \/ p[2] \in {1, C}}
FullBand == done =>
            /\ BandCells(Zero, Top) = Cells
            /\ Band8(Zero, Top) <= Plain8(Cells) /\ Plain8(Cells) - Band8(Zero, Top) <= Plain8(Outer)

EdgeSeq == LET RECURSIVE Hh(_, _)
               Hh(T, acc) == IF T = {} THEN acc ELSE LET x == CHOOSE y \in T : \A z \in T : ~Less(z, y) IN Hh(T \ {x}, Append(acc, x))
           IN Hh(Edges, << >>) \o <<Top>>
Rec == [shape |-> shape, dx |-> dx, window |-> wk,
        h |-> [i \in 1..R |-> [j \in 1..C |-> H[<<i, j>>]]], w |-> [i \in 1..R |-> [j \in 1..C |-> W[<<i, j>>]]],
        s2 |-> S2, twofsq |-> [i \in 1..R |-> [j \in 1..C |-> Spec2[<<i, j>>]]],
        ky |-> FftRange(R), kx |-> FftRange(C), edges |-> EdgeSeq,
        band8 |-> [a \in 1..Len(EdgeSeq) |-> [b \in 1..Len(EdgeSeq) |-> IF Less(EdgeSeq[a], EdgeSeq[b]) THEN Band8(EdgeSeq[a], EdgeSeq[b]) ELSE 0 - 1]]]
Emit == (EmitOn /\ done) => PrintT(<<"EMIT", ToJson(Rec)>>)
=============================================================================

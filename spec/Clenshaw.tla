------------------------------ MODULE Clenshaw ------------------------------
(* C09 / C10 -- Clenshaw summation of a Jacobi series and of its derivatives of any order, as an algorithm machine.

   The series  S(x) = SUM_n s_n P_n^(a,b)(x)  obeys  P_(n+1) = (A_n x + B_n) P_n - C_n P_(n-1)  (DLMF 18.9.2).  The
   table al[jj][n] is filled one derivative order per step, downwards in n:

      al[0][M] = s_M,   al[0][n]  = s_n + (A_n x + B_n) al[0][n+1] - C_(n+1) al[0][n+2]
      al[jj][M-jj+1..] = 0,
      al[jj][n] = jj A_n al[jj-1][n+1] + (A_n x + B_n) al[jj][n+1] - C_(n+1) al[jj][n+2]          (jj >= 1)

   Terminal law: al[jj][0] = d^jj/dx^jj S(x) for every jj <= j, where the right-hand side is the formal derivative of
   the EXPLICIT sum of the closed-form polynomials of PolyDefs -- for every coefficient vector of the menu (dense,
   sparse, length 1), parameter pair and rational point.  SeedWith = "jj" is the specified algorithm; "j" (the outer
   derivative order used in the seed row, as in the pinned tree) must violate the law for j >= 2.                     *)
EXTENDS Integers, Sequences, FiniteSets, TLC, Json, Rat, ModQ, PolyDefs

CONSTANTS Params, Svecs, Xs, MaxJ, SeedWith, EmitOn

VARIABLES par, s, x, j, al, jj
vars == <<par, s, x, j, al, jj>>

M == Len(s) - 1
a == par[1]
b == par[2]
ApB == RAdd(a, b)
\* recurrence coefficients as ModQ values
RecA(nn) == IF nn = 0 /\ (ApB = <<0, 1>> \/ ApB = <<0 - 1, 1>>) THEN Pt(RAdd(RMul(Half, ApB), RI(1)))
            ELSE MDiv(Pt(RMul(RAdd(ApB, RI(2 * nn + 1)), RAdd(ApB, RI(2 * nn + 2)))), Pt(RMul(RI(2 * (nn + 1)), RAdd(ApB, RI(nn + 1)))))
RecB(nn) == IF nn = 0 /\ (ApB = <<0, 1>> \/ ApB = <<0 - 1, 1>>) THEN Pt(RMul(Half, RSub(a, b)))
            ELSE MDiv(Pt(RMul(RSub(RMul(a, a), RMul(b, b)), RAdd(ApB, RI(2 * nn + 1)))),
                      Pt(RMul(RMul(RI(2 * (nn + 1)), RAdd(ApB, RI(nn + 1))), RAdd(ApB, RI(2 * nn)))))
RecC(nn) == MDiv(Pt(RMul(RMul(RAdd(a, RI(nn)), RAdd(b, RI(nn))), RAdd(ApB, RI(2 * nn + 2)))),
                 Pt(RMul(RMul(RI(nn + 1), RAdd(ApB, RI(nn + 1))), RAdd(ApB, RI(2 * nn)))))
Sv(nn) == MQ(s[nn + 1])
X == Pt(x)
Lin(nn) == MAdd(MMul(RecA(nn), X), RecB(nn))

\* one row of the table, given the previous row (prev[n], n in 0..M); entries beyond M are zero
Row(k, prev) ==
  LET seed == IF SeedWith = "jj" THEN k ELSE j
      R[nn \in 0..(M + 2)] ==
         LET i == M + 2 - nn IN        \* computed from the top (i = M + 2) down to i = 0
         IF i > M THEN MZero
         ELSE IF k = 0 THEN MAdd(Sv(i), MSub(MMul(Lin(i), R[nn - 1]), IF i + 2 <= M THEN MMul(RecC(i + 1), R[nn - 2]) ELSE MZero))
         ELSE IF i > M - k THEN MZero
         ELSE MAdd(MMul(MScale(IF i = M - k THEN seed ELSE k, RecA(i)), prev[i + 1]),
                   MSub(MMul(Lin(i), R[nn - 1]), IF i + 2 <= M THEN MMul(RecC(i + 1), R[nn - 2]) ELSE MZero))
  IN [i \in 0..M |-> R[M + 2 - i]]

Init == /\ par \in Params /\ s \in Svecs /\ x \in Xs /\ j \in 0..MaxJ
        /\ al = << >> /\ jj = 0
Step == /\ jj <= j
        /\ al' = Append(al, Row(jj, IF jj = 0 THEN [i \in 0..M |-> MZero] ELSE al[jj]))
        /\ jj' = jj + 1 /\ UNCHANGED <<par, s, x, j>>
Next == Step
Spec == Init /\ [][Next]_vars

\* the explicit sum and its formal derivatives (closed forms of PolyDefs)
Explicit(k) == LET T[nn \in 0..(M + 1)] ==
                     IF nn = 0 THEN MZero
                     ELSE MAdd(T[nn - 1], MMul(Sv(nn - 1), MMul(MPow(Pt(Half), k), PEvalQ(PDerN(JacPoly(nn - 1, a, b), k), Pt(VarOf("jacobi", x))))))
               IN T[M + 1]
ClenshawLaw == \A k \in 1..Len(al) : al[k][0] = Explicit(k - 1)

Rec == [a |-> a, b |-> b, s |-> s, x |-> x, j |-> j, top |-> [k \in 1..Len(al) |-> al[k][0]],
        table |-> [k \in 1..Len(al) |-> [i \in 1..(M + 1) |-> al[k][i - 1]]]]
Emit == (EmitOn /\ jj = j + 1) => PrintT(<<"EMIT", ToJson(Rec)>>)
=============================================================================
